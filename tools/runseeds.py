#!/usr/bin/env python3
"""Runs the checks against the seeded changes, each in its own scratch worktree of /repo's HEAD
(VERIF_REPO=<worktree>; /repo itself is never touched), records the outcome in meta.json.
usage: runseeds.py [--tier T] [--jobs N] [--only-missing] [name...]"""
import json, os, subprocess, sys, glob, concurrent.futures, shutil
V = os.path.dirname(os.path.dirname(os.path.abspath(__file__)))  # the tree this script belongs to (a vp-run snapshot works on its own copy)
args = sys.argv[1:]
tier, jobs, only_missing = "quick", 3, False
while args and args[0].startswith("--"):
    if args[0] == "--tier":
        tier = args[1]; args = args[2:]
    elif args[0] == "--jobs":
        jobs = int(args[1]); args = args[2:]
    elif args[0] == "--only-missing":
        only_missing = True; args = args[1:]
    else:
        sys.exit("unknown option " + args[0])
names = args or sorted(os.path.basename(os.path.dirname(p)) for p in glob.glob(V + "/seeded/*/meta.json"))
head = subprocess.check_output(["git", "-C", "/repo", "rev-parse", "--short", "HEAD"]).decode().strip()

def run(n):
    d = os.path.join(V, "seeded", n)
    meta = json.load(open(d + "/meta.json"))
    ids = [meta["property"]] + meta.get("also_check", [])
    if only_missing and all((cid + "/" + tier) in meta.get("detected_by", {}) for cid in ids):
        return []
    wt = "/tmp/rs-" + n
    subprocess.call(["git", "-C", "/repo", "worktree", "remove", "--force", wt], stderr=subprocess.DEVNULL)
    shutil.rmtree(wt, ignore_errors=True)
    if subprocess.call(["git", "-C", "/repo", "worktree", "add", "-q", "--detach", wt, "HEAD"]) != 0:
        return ["%s WORKTREE FAILED" % n]
    out = []
    try:
        if subprocess.call(["git", "-C", wt, "apply", d + "/patch.diff"]) != 0:
            return ["%s PATCH DOES NOT APPLY to %s" % (n, head)]
        env = dict(os.environ, VERIF_REPO=wt, VERIF_RUN_TAG=n)
        for cid in ids:
            p = subprocess.run(["./check", cid, "--tier", tier], cwd=V, capture_output=True, text=True, errors="replace", timeout=7200, env=env)
            viol = [l for l in p.stdout.split("\n") if l.startswith("VIOLATION ")]
            sigs = []
            for l in viol[:3]:
                try:
                    sigs.append(json.load(open(l.split("replay=")[1]))["signature"])
                except Exception:
                    pass
            det = p.returncode == 1 and len(viol) > 0
            meta.setdefault("detected_by", {})[cid + "/" + tier] = {"detected": det, "exit": p.returncode, "violation_lines": len(viol), "first_signatures": sigs, "repo_head": head}
            out.append("%-46s %s %-8s %s exit=%d violations=%d %s" % (n, cid, tier, "DETECTED" if det else "MISSED", p.returncode, len(viol), [s[:110] for s in sigs[:1]]))
            if p.returncode not in (0, 1):
                out.append("   " + (p.stdout + p.stderr)[-600:].replace("\n", " | "))
    finally:
        subprocess.call(["git", "-C", "/repo", "worktree", "remove", "--force", wt], stderr=subprocess.DEVNULL)
        shutil.rmtree(wt, ignore_errors=True)
        shutil.rmtree(os.path.join(V, ".alt", n), ignore_errors=True)
    json.dump(meta, open(d + "/meta.json", "w"), indent=1)
    return out

with concurrent.futures.ThreadPoolExecutor(max_workers=jobs) as ex:
    for res in ex.map(run, names):
        for line in res:
            print(line, flush=True)
