package gen

import (
	"strconv"
	"strings"

	"verif/harness/core"
)

// Scaled valid programs (G3v): one construct repeated or nested n times. They are valid in both
// language families (except where noted) and exist to cross size and count thresholds that the
// grammar-directed programs never reach: thousands of items in one list, tens of thousands of lines,
// offsets beyond 64 KB, hundreds of nesting levels, very long single tokens.

type ScaledShape struct {
	Name string
	Fam  int // 0 = both families, 7 = PHP 7 only
	Make func(n int, nl string) string
}

func rep(s string, n int) string {
	if n < 0 {
		n = 0
	}
	return strings.Repeat(s, n)
}

var ScaledShapes = []ScaledShape{
	{"statements", 0, func(n int, nl string) string { return "<?php" + nl + rep("$a = 1;"+nl, n) }},
	{"blank-lines-between-statements", 0, func(n int, nl string) string {
		return "<?php" + nl + "$a;" + rep(nl, n) + "$b;" + rep(nl, n/3) + "?>" + nl + "x"
	}},
	{"nested-arrays", 0, func(n int, nl string) string { return "<?php $a = " + rep("[", n) + "1" + rep("]", n) + ";" }},
	{"nested-array-calls", 0, func(n int, nl string) string { return "<?php $a = " + rep("array(", n) + rep(")", n) + ";" }},
	{"nested-parentheses", 0, func(n int, nl string) string { return "<?php $a = " + rep("(", n) + "$b" + rep(")", n) + ";" }},
	{"nested-blocks", 0, func(n int, nl string) string { return "<?php " + rep("{"+nl, n) + "$a;" + rep("}", n) }},
	{"nested-ifs", 0, func(n int, nl string) string { return "<?php " + rep("if ($a) { ", n) + "$b;" + rep(" }"+nl, n) }},
	{"nested-calls", 0, func(n int, nl string) string { return "<?php " + rep("f(", n) + "1" + rep(")", n) + ";" }},
	{"nested-closures", 0, func(n int, nl string) string {
		return "<?php $f = " + rep("function () {"+nl+"return ", n) + "1" + rep(";"+nl+"}", n) + ";"
	}},
	{"nested-ternaries-in-brackets", 0, func(n int, nl string) string { return "<?php $a = " + rep("($b ? ", n) + "1" + rep(" : 2)", n) + ";" }},
	{"concat-chain", 0, func(n int, nl string) string { return "<?php $a = 'x'" + rep(nl+". $b", n) + ";" }},
	{"plus-chain", 0, func(n int, nl string) string { return "<?php $a = 1" + rep(" + 1", n) + ";" }},
	{"pow-chain-right-assoc", 0, func(n int, nl string) string { return "<?php $a = 2" + rep(" ** 2", n) + ";" }},
	{"assign-chain", 0, func(n int, nl string) string { return "<?php " + rep("$a = ", n) + "1;" }},
	{"short-ternary-chain", 0, func(n int, nl string) string { return "<?php $a = $b" + rep(" ?: $b", n) + ";" }},
	{"unary-chain", 0, func(n int, nl string) string { return "<?php $a = " + rep("!", n) + "$b;" }},
	{"cast-chain", 0, func(n int, nl string) string { return "<?php $a = " + rep("(int) ", n) + "$b;" }},
	{"property-chain", 0, func(n int, nl string) string { return "<?php $a" + rep(nl+"->b", n) + ";" }},
	{"method-chain", 0, func(n int, nl string) string { return "<?php $a" + rep("->m()"+nl, n) + ";" }},
	{"dimension-chain", 0, func(n int, nl string) string { return "<?php $a" + rep("[0]", n) + " = 1;" }},
	{"qualified-name", 0, func(n int, nl string) string { return "<?php new A" + rep("\\B", n) + ";" }},
	{"long-identifier", 0, func(n int, nl string) string { return "<?php function f" + rep("x", n) + "() {}" }},
	{"long-variable-name", 0, func(n int, nl string) string { return "<?php $v" + rep("y", n) + " = 1;" }},
	{"long-number", 0, func(n int, nl string) string { return "<?php $a = 1" + rep("0", n) + ";" }},
	{"long-single-quoted-string-many-lines", 0, func(n int, nl string) string { return "<?php $a = '" + rep("line"+nl, n) + "';" + nl + "$b;" }},
	{"long-double-quoted-string-many-lines", 0, func(n int, nl string) string { return "<?php $a = \"" + rep("line"+nl, n) + "\";" + nl + "$b;" }},
	{"string-with-many-interpolations", 0, func(n int, nl string) string { return "<?php $a = \"" + rep("$b {$c} ${d} $e[0] $f->g"+nl, n) + "\";" }},
	{"heredoc-with-many-interpolations", 0, func(n int, nl string) string {
		return "<?php $a = <<<EOT" + nl + rep("text $b {$c->d} ${e}"+nl, n) + "EOT;" + nl + "$z;"
	}},
	{"nowdoc-many-lines", 0, func(n int, nl string) string {
		return "<?php $a = <<<'EOT'" + nl + rep("raw $b"+nl, n) + "EOT;" + nl + "$z;"
	}},
	{"many-heredocs", 0, func(n int, nl string) string { return "<?php" + nl + rep("$a = <<<L"+nl+"x"+nl+"L;"+nl, n) }},
	{"nested-interpolations", 0, func(n int, nl string) string { return "<?php $a = " + rep("\"x{$b[", n) + "1" + rep("]}y\"", n) + ";" }},
	{"backtick-with-many-interpolations", 0, func(n int, nl string) string { return "<?php $a = `" + rep("ls $b ", n) + "`;" }},
	{"long-block-comment-many-lines", 0, func(n int, nl string) string { return "<?php /* " + rep("c"+nl, n) + "*/ $a;" + nl + "$b;" }},
	{"long-doc-comment-many-lines", 0, func(n int, nl string) string { return "<?php /** " + rep(" * d"+nl, n) + " */ function f() {}" }},
	{"many-comments-before-one-token", 0, func(n int, nl string) string { return "<?php " + rep("/* c */ // d"+nl+"# e"+nl, n) + "$a;" }},
	{"many-comments-between-tokens", 0, func(n int, nl string) string { return "<?php $a = [" + rep("1 /* c */ , // d"+nl, n) + "];" }},
	{"long-line-comment", 0, func(n int, nl string) string { return "<?php // " + rep("x", n) + nl + "$a;" }},
	{"inline-html-many-lines", 0, func(n int, nl string) string {
		return rep("<p>html</p>"+nl, n) + "<?php $a; ?>" + nl + rep("tail"+nl, n/4)
	}},
	{"html-php-alternation", 0, func(n int, nl string) string { return rep("<b><?php echo $a; ?></b>"+nl, n) }},
	{"echo-tags", 0, func(n int, nl string) string { return rep("<?= $a ?>"+nl, n) }},
	{"array-items", 0, func(n int, nl string) string { return "<?php $a = [" + rep("1, ", n) + "2];" }},
	{"keyed-array-items", 0, func(n int, nl string) string { return "<?php $a = array(" + rep("'k' => $v,"+nl, n) + ");" }},
	{"list-items", 0, func(n int, nl string) string { return "<?php list(" + rep("$a, ", n) + "$b) = $c;" }},
	{"call-arguments", 0, func(n int, nl string) string { return "<?php f(" + rep("$a, ", n) + "$b);" }},
	{"function-parameters", 0, func(n int, nl string) string {
		var sb strings.Builder
		sb.WriteString("<?php function f(")
		for i := 0; i < n; i++ {
			sb.WriteString("$p" + strconv.Itoa(i) + ", ")
		}
		sb.WriteString("$last = null) {}")
		return sb.String()
	}},
	{"closure-uses", 0, func(n int, nl string) string { return "<?php $f = function () use (" + rep("$a, ", n) + "&$b) {};" }},
	{"echo-expressions", 0, func(n int, nl string) string { return "<?php echo " + rep("$a, ", n) + "$b;" }},
	{"global-variables", 0, func(n int, nl string) string { return "<?php global " + rep("$a, ", n) + "$b;" }},
	{"static-variables", 0, func(n int, nl string) string { return "<?php static " + rep("$a = 1, ", n) + "$b;" }},
	{"unset-isset-lists", 0, func(n int, nl string) string {
		return "<?php unset(" + rep("$a, ", n) + "$b); isset(" + rep("$a, ", n) + "$b);"
	}},
	{"const-list", 0, func(n int, nl string) string { return "<?php const " + rep("A = 1, ", n) + "B = 2;" }},
	{"use-list", 0, func(n int, nl string) string { return "<?php use " + rep("A\\B as C, ", n) + "D;" }},
	{"group-use-list", 7, func(n int, nl string) string { return "<?php use A\\{" + rep("B, function c, ", n) + "D};" }},
	{"class-members", 0, func(n int, nl string) string {
		return "<?php class A {" + nl + rep("public $p = 1;"+nl+"const C = 2;"+nl+"function m() {}"+nl, n) + "}"
	}},
	{"property-list", 0, func(n int, nl string) string { return "<?php class A { public " + rep("$p = 1, ", n) + "$q; }" }},
	{"implements-list", 0, func(n int, nl string) string { return "<?php class A implements " + rep("I, ", n) + "J {}" }},
	{"trait-adaptations", 0, func(n int, nl string) string {
		return "<?php class A { use T, U {" + nl + rep("T::m insteadof U; m as protected n;"+nl, n) + "} }"
	}},
	{"switch-cases", 0, func(n int, nl string) string {
		return "<?php switch ($a) {" + nl + rep("case 1: $b; break;"+nl, n) + "default: }"
	}},
	{"elseif-chain", 0, func(n int, nl string) string { return "<?php if ($a) {}" + rep(nl+"elseif ($b) {}", n) + " else {}" }},
	{"alt-elseif-chain", 0, func(n int, nl string) string {
		return "<?php if ($a):" + rep(nl+"elseif ($b): $c;", n) + nl + "else: endif;"
	}},
	{"catch-chain", 0, func(n int, nl string) string { return "<?php try {}" + rep(" catch (E $e) {}"+nl, n) + " finally {}" }},
	{"for-expression-lists", 0, func(n int, nl string) string {
		return "<?php for (" + rep("$i = 0, ", n) + "$j = 0; ; " + rep("$i++, ", n) + "$j++) {}"
	}},
	{"declare-directives", 0, func(n int, nl string) string { return "<?php declare(" + rep("ticks = 1, ", n) + "ticks = 2);" }},
	{"labels-and-gotos", 0, func(n int, nl string) string { return "<?php " + rep("l: goto l;"+nl, n) }},
	{"namespaces", 0, func(n int, nl string) string {
		return "<?php" + nl + rep("namespace A\\B;"+nl+"use C\\D;"+nl+"f();"+nl, n)
	}},
	{"braced-namespaces", 0, func(n int, nl string) string {
		return "<?php" + nl + rep("namespace A { f(); }"+nl, n) + "namespace { g(); }"
	}},
	{"functions", 0, func(n int, nl string) string {
		return "<?php" + nl + rep("function f(A $a = null, &$b, ...$c) { return $a; }"+nl, n)
	}},
	{"halt-compiler-tail", 0, func(n int, nl string) string { return "<?php $a; __halt_compiler();" + rep("data\x00"+nl, n) }},
	{"shebang-and-statements", 0, func(n int, nl string) string { return "#!/usr/bin/php" + nl + "<?php" + nl + rep("$a;"+nl, n) }},
	{"open-close-tags", 0, func(n int, nl string) string { return rep("<?php ?>"+nl, n) }},
	{"yield-from-with-blanks", 7, func(n int, nl string) string { return "<?php function g() { yield" + rep(" "+nl, n) + "from f(); }" }},
	{"cast-with-blanks", 0, func(n int, nl string) string { return "<?php $a = (" + rep(" ", n) + "int" + rep("\t", n) + ") $b;" }},
}

// Scaled builds one scaled valid program for the family; n is drawn from a distribution with a long
// tail capped by maxN and maxBytes (the caller's budget).
func Scaled(r *core.Rand, fam, maxN, maxDeep, maxBytes int) (src []byte, shape string, n int) {
	var sh ScaledShape
	for {
		sh = ScaledShapes[r.Intn(len(ScaledShapes))]
		if sh.Fam == 0 || sh.Fam == fam {
			break
		}
	}
	switch k := r.Intn(20); {
	case k < 13:
		n = r.Range(1, 300)
	case k < 18:
		n = r.Range(300, 3000)
	default:
		n = r.Range(3000, 70000)
	}
	if n > maxN {
		n = r.Range(maxN/2+1, maxN)
	}
	// depth is bounded separately: the trees are walked recursively by the library and by the monitors, and the
	// dumper's output grows with depth x nodes
	deep := strings.HasPrefix(sh.Name, "nested-") || (strings.HasSuffix(sh.Name, "-chain") && sh.Name != "elseif-chain" && sh.Name != "alt-elseif-chain" && sh.Name != "catch-chain") || sh.Name == "pow-chain-right-assoc"
	if deep && n > maxDeep {
		n = r.Range(maxDeep/3+1, maxDeep)
	}
	nl := r.Pick("\n", "\n", "\r\n", "\n")
	if unit := len(sh.Make(2, nl)) - len(sh.Make(1, nl)); unit > 0 && unit*n > maxBytes {
		n = maxBytes / unit
	}
	return []byte(sh.Make(n, nl)), sh.Name, n
}

// LineSweep builds a valid program out of segments that each hold a PRNG number (0..40) of line
// terminators inside ONE token or between two tokens, many of them starting in column 0: runs of blank
// lines, block and doc comments, single- and double-quoted strings, heredoc and nowdoc bodies, inline HTML
// after a close tag, line comments. Every (lines inside a token, lines scanned after it) combination below
// 40 x 40 turns up quickly; line numbers of tokens and nodes are what C04 and C05 compare.
func LineSweep(r *core.Rand) []byte {
	nl := r.Pick("\n", "\n", "\r\n")
	if r.Chance(1, 6) {
		nl = "" // mixed: chosen per use below
	}
	eol := func() string {
		if nl != "" {
			return nl
		}
		return r.Pick("\n", "\r\n")
	}
	lines := func(text string, k int) string {
		var sb strings.Builder
		for i := 0; i < k; i++ {
			sb.WriteString(text)
			sb.WriteString(eol())
		}
		return sb.String()
	}
	var sb strings.Builder
	sb.WriteString("<?php" + eol())
	label := 0
	for i, n := 0, r.Range(2, 12); i < n; i++ {
		k := r.Intn(41)
		switch r.Intn(12) {
		case 0:
			sb.WriteString("$a = 1;" + lines("", k))
		case 1:
			sb.WriteString("/*" + lines(" c", k) + "*/" + eol())
		case 2:
			sb.WriteString("/**" + lines(" * d", k) + " */" + eol() + "function f" + strconv.Itoa(i) + "() {}" + eol())
		case 3:
			sb.WriteString("'" + lines("s", k) + "';" + eol())
		case 4:
			sb.WriteString("\"" + lines("t $v", k) + "\";" + eol())
		case 5:
			label++
			l := "L" + strconv.Itoa(label)
			sb.WriteString("$h = <<<" + l + eol() + lines("body $v", k) + l + ";" + eol())
		case 6:
			label++
			l := "N" + strconv.Itoa(label)
			sb.WriteString("$n = <<<'" + l + "'" + eol() + lines("raw", k) + l + ";" + eol())
		case 7:
			sb.WriteString("?>" + eol() + lines("<p>html</p>", k) + "<?php" + eol())
		case 8:
			sb.WriteString(lines("// line comment", k))
		case 9:
			sb.WriteString("`" + lines("cmd $v", k) + "`;" + eol())
		case 10:
			sb.WriteString("f(" + lines("$x,", k) + "$y);" + eol())
		default:
			sb.WriteString("$b = [" + eol() + lines("  1,", k) + "];" + eol())
		}
	}
	if r.Bool() {
		sb.WriteString("?>" + eol() + lines("tail", r.Intn(20)))
	}
	return []byte(sb.String())
}
