package mon

import (
	"fmt"

	"verif/harness/core"
	"verif/harness/gen"
	"verif/harness/obs"
)

// C08 — whitespace, line endings and comments never change the tree's structure.
//
// Metamorphic oracle: one abstract program, many trivia layouts (G2); every layout
// must parse without error to the same structure projection as the canonical
// single-blank layout. The layouts only place trivia where PHP permits it (gap table
// of the generator: nothing inside casts / 'yield from' / strings, blanks only after
// '->' before a reserved word, a blank after '<?php', a line terminator after a
// classic heredoc terminator, nothing around inline HTML).

var c08Layouts = []int{gen.LayMinimal, gen.LayLF, gen.LayCRLF, gen.LayComments, gen.LayComments, gen.LayMixed, gen.LayMixed, gen.LayMixed, gen.LayCR, gen.LayMixedCR}

func c08Compare(c *core.Ctx, fam int, ver string, base []byte, variant []byte, layout string, baseStruct string) bool {
	w := core.W(variant, ver).With("layout", layout).With("canonical_layout", string(base))
	c.Inflight(variant, "C08 parse "+ver)
	pr := obs.Parse(variant, ver, true)
	c.Add("layouts_parsed", 1)
	if pr.Panic != nil {
		c.Violation(pr.Panic.Sig, "Parse panicked on a trivia variant: "+pr.Panic.Msg, w)
		return false
	}
	if len(pr.Errors) > 0 {
		e := pr.Errors[0]
		near := ""
		if e.Pos != nil && e.Pos.StartPos >= 0 && e.Pos.StartPos <= len(variant) {
			near = ctxAt(variant, e.Pos.StartPos)
		}
		c.Violation(fmt.Sprintf("layout|fam%d|%s|error:%s", fam, layout, numStrip(e.Msg)), fmt.Sprintf("the %s layout of a program that parses cleanly in the canonical layout is rejected under %s: %s near %s", layout, ver, e.String(), near), w)
		return false
	}
	got := obs.StructureCanon(pr.Root)
	if got != baseStruct {
		c.Violation(fmt.Sprintf("layout|fam%d|%s|tree|%s", fam, layout, structSig(baseStruct, got)), "the "+layout+" layout yields a different structure: "+obs.FirstDiff(baseStruct, got), w)
		return false
	}
	return true
}

func c08Case(c *core.Ctx, idx int) {
	r := core.NewRand(c.P.Seed, "C08", idx)
	fam := 7
	if r.Chance(2, 5) {
		fam = 5
	}
	pc := makeProgram(r, fam, false, 6)
	toks := pc.root.Tokens()
	base := gen.Render(toks, gen.LayCanon, r, nil)
	pr := obs.Parse(base, pc.ver, true)
	if pr.Panic != nil || len(pr.Errors) > 0 || pr.Root == nil {
		// whether the program is a valid one is C03's business — unless another layout of the same tokens IS accepted
		min := gen.Render(toks, gen.LayMinimal, r.Split("min"), nil)
		if pm := obs.Parse(min, pc.ver, true); pm.Panic == nil && len(pm.Errors) == 0 && pm.Root != nil && len(pr.Errors) > 0 {
			e := pr.Errors[0]
			c.Violation(fmt.Sprintf("layout|fam%d|canon-rejected-minimal-accepted|error:%s", fam, numStrip(e.Msg)), fmt.Sprintf("the canonical layout (one blank between tokens) is rejected under %s (%s) while the minimal layout of the same tokens parses cleanly", pc.ver, e.String()), core.W(base, pc.ver).With("minimal_layout", string(min)))
			return
		}
		c.Inconclusive("canonical layout not accepted (C03's business)")
		return
	}
	baseStruct := obs.StructureCanon(pr.Root)
	stats := map[string]int{}
	n := c.P.Pick(len(c08Layouts), 24)
	ok := true
	for i := 0; i < n; i++ {
		mode := c08Layouts[i%len(c08Layouts)]
		variant := gen.Render(toks, mode, r.Split(fmt.Sprint("lay", i)), stats)
		if !c08Compare(c, fam, pc.ver, base, variant, gen.LayoutNames[mode], baseStruct) {
			ok = false
		}
		c.Cover("layouts", gen.LayoutNames[mode])
	}
	for k, v := range stats {
		c.Res().Cover["gap_x_trivia"] = addTo(c.Res().Cover["gap_x_trivia"], k, int64(v))
	}
	c.Cover("family", fmt.Sprint(fam))
	c.Add("gaps_between_tokens", int64(len(toks)))
	c.NonTrivial(base, []byte(pc.ver))
	if ok && c.WantSample() && len(toks) > 8 && len(toks) < 90 {
		c.Sample(map[string]interface{}{"canonical": string(base), "a_comment_layout": string(gen.Render(toks, gen.LayComments, r.Split("s"), nil)), "version": pc.ver, "layouts_compared": n})
	}
}

func init() {
	core.Register(&core.Check{
		ID:   "C08",
		Rule: "cases = known-finding witnesses (base, variant) ++ generated programs (G1, both families), each rendered in the canonical layout and in 10 (quick) / 24 (thorough) PRNG layouts of the classes minimal, LF, CRLF, lone-CR, comment-heavy (/* */, /** */, //, #), mixed; every layout parsed under the same version; non-trivial = canonical layout accepted and all variants compared; distinct by (canonical text, version)",
		Assumptions: []string{
			"the generator's gap table is the definition of 'where PHP allows trivia'",
			"structure = kinds, roles, order and Value bytes (tokens, free-floating tokens and positions excluded)",
		},
		Plan: func(p core.Params) int { return p.Pick(30000, 300000) },
		Run:  func(c *core.Ctx, idx int) { c08Case(c, idx) },
		RunWitness: func(c *core.Ctx, w core.Witness) {
			base := []byte(w.Cfg["base"])
			pr := obs.Parse(base, w.Ver, true)
			if pr.Panic != nil || len(pr.Errors) > 0 || pr.Root == nil {
				c.Inconclusive("witness base not accepted")
				return
			}
			c08Compare(c, obs.Fam(w.Ver), w.Ver, base, w.Src, "witness:"+w.Cfg["tag"], obs.StructureCanon(pr.Root))
			c.NonTrivial(base, w.Src)
		},
		MinNonTrivial: 500,
	})
}
