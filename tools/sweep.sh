#!/bin/bash
# usage: tools/sweep.sh <tier> <seed>...   — runs every registered check at each seed; prints one line per run; exit 1 if any run is not silent.
cd "$(dirname "$0")/.."
TIER=$1; shift
./check --build || exit 2
bad=0
for seed in "$@"; do
  for id in $(.bin/vcheck -list); do
    out=$(VERIF_SEED=$seed ./check $id --tier $TIER 2>&1); rc=$?
    line=$(echo "$out" | grep "^$id tier=" | tail -1)
    echo "seed=$seed rc=$rc $line" | cut -c1-260
    if [ $rc -ne 0 ]; then bad=1; echo "$out" | grep -A4 "^--- \|^VIOLATION\|HARNESS" | cut -c1-1200 | head -60; fi
  done
done
exit $bad
