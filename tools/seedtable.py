#!/usr/bin/env python3
"""Prints the markdown table of seeded changes and which check caught them (from seeded/*/meta.json)."""
import json, glob, os
import re
def clean(x):
    return re.sub(r"[\x00-\x08\x0b\x0c\x0e-\x1f\x7f]", "?", x)
rows = []
for f in sorted(glob.glob("/verif/seeded/*/meta.json")):
    m = json.load(open(f)); n = os.path.basename(os.path.dirname(f))
    det = m.get("detected_by", {})
    cell = "; ".join("%s: %s" % (k, ("caught (%s)" % (v.get("first_signatures") or ["?"])[0][:70]) if v.get("detected") else "MISSED") for k, v in sorted(det.items())) or "not run"
    rows.append(clean("| %s | %s | %s | %s |" % (n, m["property"], (m["needs_to_manifest"][:200] + ("…" if len(m["needs_to_manifest"]) > 200 else "")).replace("|", "/").replace("\n", " "), cell.replace("|", "/"))))
print("| seeded change | property | needs, in order to manifest | result |\n|---|---|---|---|")
print("\n".join(rows))

import sys
if "--write" in sys.argv:
    p = "/verif/DESIGN.md"
    s = open(p).read()
    a = s.index("<!-- SEEDTABLE-BEGIN -->"); b = s.index("<!-- SEEDTABLE-END -->")
    tbl = "| seeded change | property | needs, in order to manifest | result |\n|---|---|---|---|\n" + "\n".join(rows) + "\n"
    open(p, "w").write(s[:a] + "<!-- SEEDTABLE-BEGIN -->\n" + tbl + s[b:])
