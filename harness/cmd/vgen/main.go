// vgen prints generated programs (development aid): vgen <fam> <seed> <n> [grep-substring]
package main

import (
	"fmt"
	"os"
	"strconv"
	"strings"

	"verif/harness/core"
	"verif/harness/gen"
)

func main() {
	fam, _ := strconv.Atoi(os.Args[1])
	seed, _ := strconv.ParseInt(os.Args[2], 10, 64)
	n, _ := strconv.Atoi(os.Args[3])
	sub := ""
	if len(os.Args) > 4 {
		sub = os.Args[4]
	}
	for i := 0; i < n; i++ {
		r := core.NewRand(seed, "vgen", i)
		g := gen.NewG(r.Split("prog"), gen.Opts{Fam: fam, Flex73: fam == 7, MaxDepth: 4, MaxStmts: 4})
		root := g.Program()
		src := string(gen.Render(root.Tokens(), gen.LayCanon, r, nil))
		if sub == "" || strings.Contains(src, sub) {
			fmt.Printf("--- %d\n%s\n", i, src)
		}
	}
}
