package mon

import (
	"bytes"
	"fmt"
	"os"
	"os/exec"
	"path/filepath"
	"regexp"
	"strings"

	"verif/harness/core"
	"verif/harness/obs"
)

var c06HeaderRe = regexp.MustCompile(`(?m)^==> \[\d+\] (/[^\n]*\.php)\n`)

// c06CLI — errors as the command-line tool reports them ("-e -p"): one run of the real CLI over a generated
// directory of malformed and hostile files; for every file the block of error lines the tool prints must be
// exactly the errors the library delivers for that file alone, in the same order (message and line).
func c06CLI(c *core.Ctx, idx int) {
	bin := filepath.Join(core.BinDir(), "php-parser")
	if _, err := os.Stat(bin); err != nil {
		core.Fail("C06: CLI build missing (%s)", bin)
	}
	r := core.NewRand(c.P.Seed, "C06cli", idx)
	ver := []string{"7.4", "5.6", "7.2"}[idx%3]
	dir := filepath.Join(core.WorkDir(), "C06-cli", fmt.Sprintf("run%d-%d", idx, os.Getpid()))
	os.RemoveAll(dir)
	defer os.RemoveAll(dir)
	os.MkdirAll(dir, 0o755)
	type f struct {
		path string
		src  []byte
		want string
	}
	var files []f
	want := c.P.Pick(200, 800)
	withErr := 0
	for i := 0; len(files) < want && i < want*3; i++ {
		pc := genParseCase(c.P.Seed, "C06clifile", idx*100000+i, 70)
		if len(pc.Src) > 20000 {
			continue
		}
		pr := obs.Parse(append([]byte(nil), pc.Src...), ver, true)
		if pr.Panic != nil {
			continue
		}
		var sb strings.Builder
		for _, e := range pr.Errors {
			sb.WriteString("==> " + e.String() + "\n")
		}
		if len(pr.Errors) > 0 {
			withErr++
		}
		p := filepath.Join(dir, fmt.Sprintf("f%04d.php", len(files)))
		if os.WriteFile(p, pc.Src, 0o644) != nil {
			core.Fail("C06: cannot write %s", p)
		}
		files = append(files, f{p, pc.Src, sb.String()})
	}
	procs := []string{"1", "3", "16"}[r.Intn(3)]
	cmd := exec.Command(bin, "-e", "-p", "-phpver", ver, dir)
	cmd.Env = append(os.Environ(), "GOMAXPROCS="+procs)
	var stdout, stderr bytes.Buffer
	cmd.Stdout, cmd.Stderr = &stdout, &stderr
	c.Inflight([]byte(dir), "C06 CLI run")
	err := cmd.Run()
	w := core.Witness{Cfg: map[string]string{"cli": "php-parser -e -p -phpver " + ver + " <dir>", "files": fmt.Sprint(len(files)), "GOMAXPROCS": procs}}
	c.Add("cli_runs", 1)
	if err != nil {
		c.Violation("cli|exit", "the CLI exited with "+err.Error()+": "+trunc(stderr.String(), 300), w)
		return
	}
	out := stderr.String()
	locs := c06HeaderRe.FindAllStringSubmatchIndex(out, -1)
	got := map[string]string{}
	for i, l := range locs {
		end := len(out)
		if i+1 < len(locs) {
			end = locs[i+1][0]
		}
		got[filepath.Base(out[l[2]:l[3]])] = out[l[1]:end]
	}
	for _, fl := range files {
		g, ok := got[filepath.Base(fl.path)]
		if !ok {
			c.Violation("cli|file-not-reported", "the CLI printed no block for "+filepath.Base(fl.path), w)
			return
		}
		c.Add("cli_files_compared", 1)
		if g != fl.want {
			c.Violation("cli|errors-differ", fmt.Sprintf("php-parser -e prints other errors for a file than the library delivers for it alone: %s", obs.FirstDiff(fl.want, g)), core.W(fl.src, ver).With("cli", w.Cfg["cli"]).With("files_in_run", fmt.Sprint(len(files))))
			return
		}
	}
	c.Add("cli_files_with_errors", int64(withErr))
	if withErr >= 20 {
		c.NonTrivial([]byte("cli"), []byte(fmt.Sprint(idx)))
	}
}
