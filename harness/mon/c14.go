package mon

import (
	"fmt"
	"sort"
	"strings"

	"verif/harness/core"
	"verif/harness/gen"
	"verif/harness/obs"

	"github.com/z7zmey/php-parser/pkg/ast"
	"github.com/z7zmey/php-parser/pkg/visitor/nsresolver"
	"github.com/z7zmey/php-parser/pkg/visitor/traverser"
)

// C14 — resolved names follow PHP's name-resolution rules.
//
// Oracle: gen.NSProgram builds a program together with the expected map computed by an
// independent implementation of PHP's compile-time rules (gen/nsprog.go: nsModel). Every
// expected entry names the node that must be the key (found in the parsed tree by kind
// and start offset) and the value; special names may be absent or map to themselves.
// Every entry of ResolvedNames that was not expected is reported as extra.

type nsKey struct {
	kind  string
	start int
}

func c14Case(c *core.Ctx, idx int) {
	r := core.NewRand(c.P.Seed, "C14", idx)
	fam := 7
	if r.Chance(1, 4) {
		fam = 5
	}
	root, x := gen.NSProgram(r.Split("prog"), fam)
	ver := progVersion(r, fam, false)
	toks := root.Tokens()
	mode := []int{gen.LayCanon, gen.LayCanon, gen.LayMinimal, gen.LayLF, gen.LayComments, gen.LayMixed}[r.Intn(6)]
	src, offs := gen.RenderPos(toks, mode, r.Split("lay"), nil)
	first := gen.FirstTokens(root)
	c.Inflight(src, "C14 "+ver)
	pr := obs.Parse(src, ver, true)
	if pr.Panic != nil || pr.Root == nil || len(pr.Errors) > 0 {
		c.Inconclusive("generated namespace program not accepted (C03's business)")
		if len(pr.Errors) > 0 {
			c.Logf("C14: rejected program: %s | %s", pr.Errors[0].String(), obsQuote(src, 300))
		}
		return
	}
	c14Check(c, pr.Root, src, ver, x.Refs, func(n *gen.Node) int {
		ti, ok := first[n]
		if !ok || ti >= len(offs) {
			return -1
		}
		return offs[ti]
	})
	for k, v := range x.Pos {
		c.Res().Cover["positions"] = addTo(c.Res().Cover["positions"], k, int64(v))
	}
	c.Cover("family", fmt.Sprint(fam))
	c.NonTrivial(src, []byte(ver))
	if c.WantSample() && len(src) < 420 && len(x.Refs) > 4 {
		var exp []string
		for _, rf := range x.Refs {
			exp = append(exp, rf.What+" => "+rf.Want)
		}
		c.Sample(map[string]interface{}{"program": string(src), "version": ver, "expected_resolutions": exp})
	}
}

func c14Check(c *core.Ctx, root ast.Vertex, src []byte, ver string, refs []gen.NSRef, start func(*gen.Node) int) {
	w := core.W(src, ver)
	nsr := nsresolver.NewNamespaceResolver()
	if p := obs.Try(func() { traverser.NewTraverser(nsr).Traverse(root) }); p != nil {
		c.Violation(p.Sig, "name resolver panicked: "+p.Msg, w)
		return
	}
	actual := map[nsKey]string{}
	for n, v := range nsr.ResolvedNames {
		st := -1
		if p := n.GetPosition(); p != nil {
			st = p.StartPos
		}
		actual[nsKey{obs.Kind(n), st}] = v
	}
	expected := map[nsKey]bool{}
	for _, rf := range refs {
		st := start(rf.N)
		if st < 0 {
			core.Fail("C14: reference node not found in the rendered program")
		}
		k := nsKey{rf.N.Kind, st}
		expected[k] = true
		got, ok := actual[k]
		c.Add("expected_entries_checked", 1)
		form := map[string]string{"Name": "name", "NameFullyQualified": "fq", "NameRelative": "relative"}[rf.N.Kind]
		if form == "" {
			form = "decl"
		}
		if form == "name" && strings.Contains(nameText(rf.N), "\\") {
			form = "qualified"
		}
		switch {
		case rf.Special:
			if ok && !strings.EqualFold(got, rf.Want) {
				c.Violation("resolve|"+rf.What+"|special-name-resolved", fmt.Sprintf("special name %q (%s) is mapped to %q", rf.Want, rf.What, got), w)
				return
			}
		case !ok:
			c.Violation("resolve|"+rf.What+"|"+form+"|missing", fmt.Sprintf("%s %q at offset %d (%s) has no entry in ResolvedNames; PHP's rules give %q", rf.N.Kind, nameText(rf.N), st, rf.What, rf.Want), w)
			return
		case got != rf.Want:
			c.Violation("resolve|"+rf.What+"|"+form+"|wrong", fmt.Sprintf("%s %q at offset %d (%s) is resolved to %q; PHP's rules give %q", rf.N.Kind, nameText(rf.N), st, rf.What, got, rf.Want), w)
			return
		}
	}
	var extra []string
	for k, v := range actual {
		if !expected[k] {
			extra = append(extra, fmt.Sprintf("%s@%d=%s", k.kind, k.start, v))
		}
	}
	if len(extra) > 0 {
		sort.Strings(extra)
		kind := strings.SplitN(extra[0], "@", 2)[0]
		c.Violation("resolve|extra-entry|"+kind, fmt.Sprintf("ResolvedNames holds %d entries no rule of PHP produces, e.g. %s", len(extra), extra[0]), w)
	}
}

func nameText(n *gen.Node) string {
	var sb strings.Builder
	for _, t := range n.Tokens() {
		sb.WriteString(t.S)
	}
	if len(sb.String()) > 60 {
		return sb.String()[:60]
	}
	return sb.String()
}

func init() {
	core.Register(&core.Check{
		ID:   "C14",
		Rule: "cases = known-finding witnesses ++ generated namespace programs (G6: none / semicolon / braced namespaces, several per file; use / use function / use const / group / mixed-group imports with and without aliases, names and aliases from a small pool in PRNG letter case so that imports hit; declarations of all five kinds; references of all name forms in extends, implements, interface extends, new, static call/property/constant, instanceof, catch (multi), parameter/return/property types incl. nullable and scalar names, closures, arrow functions, function calls, constant fetches, defaults, trait use and adaptations, self/parent/true/false/null) in a PRNG layout; expected map from an independent implementation of PHP's rules; the first 3 (quick) / 30 (thorough) cases run the real CLI with -r -p over a directory of 150 / 500 such programs (7.4 and 5.6, GOMAXPROCS 1/4/16) and compare the names printed per file with the resolver's result for that file alone; non-trivial = program accepted and map compared; distinct by (source, version)",
		Assumptions: []string{
			"nsModel (gen/nsprog.go) is the specification: php.net 'Name resolution rules' for compile-time resolution; function/constant fallback to the global namespace is a run-time matter and not part of the map",
			"a special name may be absent from the map or mapped to itself in any letter case",
		},
		Plan: func(p core.Params) int { return p.Pick(200000, 5000000) },
		Run: func(c *core.Ctx, idx int) {
			if idx < c.P.Pick(3, 30) {
				c14CLI(c, idx)
				return
			}
			c14Case(c, idx)
		},
		CaseCPU: 120,
		RunWitness: func(c *core.Ctx, w core.Witness) {
			// witnesses carry the expected entries as config: "expect" = kind@start=value;...
			pr := obs.Parse(w.Src, w.Ver, true)
			if pr.Panic != nil || pr.Root == nil {
				return
			}
			nsr := nsresolver.NewNamespaceResolver()
			traverser.NewTraverser(nsr).Traverse(pr.Root)
			actual := map[string]string{}
			for n, v := range nsr.ResolvedNames {
				st := -1
				if p := n.GetPosition(); p != nil {
					st = p.StartPos
				}
				actual[fmt.Sprintf("%s@%d", obs.Kind(n), st)] = v
			}
			for _, e := range strings.Split(w.Cfg["expect"], ";") {
				kv := strings.SplitN(e, "=", 2)
				if len(kv) != 2 {
					continue
				}
				if actual[kv[0]] != kv[1] {
					c.Violation("resolve|witness:"+w.Cfg["tag"], fmt.Sprintf("%s is resolved to %q, expected %q", kv[0], actual[kv[0]], kv[1]), core.W(w.Src, w.Ver))
				}
			}
			c.NonTrivial(w.Src)
		},
		MinNonTrivial: 500,
	})
}
