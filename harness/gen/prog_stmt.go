package gen

import (
	"strconv"
	"strings"
)

// Statement part of G1.

// semi returns the statement terminator: ';' (or, for expression-like statements and
// when HTML is allowed, a close tag followed by inline HTML and a new open tag, which
// adds the inline HTML as a following statement — returned in extra).
func (g *G) semi() Tok { return t(";") }

// block: { stmts } as a StmtStmtList.
func (g *G) block(depth int, n int) *Node {
	ss := g.stmts(depth, n, false)
	return &Node{Kind: "StmtStmtList", Kids: []Kid{list("Stmts", ss)}, Parts: parts(t("{"), nodesToParts(ss), t("}"))}
}

// body: a statement used as the body of a control structure.
func (g *G) body(depth int) *Node {
	switch g.R.Intn(4) {
	case 0:
		return g.simpleStmt(depth)
	case 1:
		return &Node{Kind: "StmtNop", Parts: parts(t(";"))}
	}
	return g.block(depth, g.R.Intn(3))
}

// altBody: statements of an alternative-syntax body (StmtStmtList without braces).
func (g *G) altBody(depth int) *Node {
	ss := g.stmts(depth, g.R.Intn(3), false)
	if len(ss) > 0 && endsWithOpenIf(ss[len(ss)-1]) {
		// a following elseif/else would attach to that inner if: close it with an empty statement
		ss = append(ss, &Node{Kind: "StmtNop", Parts: parts(t(";"))})
	}
	return &Node{Kind: "StmtStmtList", Kids: []Kid{list("Stmts", ss)}, Parts: nodesToParts(ss)}
}

func (g *G) exprStmt(depth int) *Node {
	e := g.exprTop(depth)
	// a statement may not start with a token that begins another statement form
	return &Node{Kind: "StmtExpression", Kids: []Kid{one("Expr", e)}, Parts: parts(e, g.semi())}
}

// heredocStmt: $v = <<<L ... L; followed by a line terminator.
func (g *G) heredocStmt(depth int) *Node {
	h := g.heredoc(depth)
	v := g.simpleVar()
	as := &Node{Kind: "ExprAssign", Kids: []Kid{one("Var", v), one("Expr", h)}, Parts: parts(v, t("="), h), Prec: precAssign}
	n := &Node{Kind: "StmtExpression", Kids: []Kid{one("Expr", as)}, Parts: parts(as, tn(";"), tg("", GapNL))}
	if h.Flags&FFlex73 != 0 && !g.O.Formatter {
		// behind a flexible (7.3+) closing label anything may follow on the same line
		n.Parts = parts(as, g.semi())
	}
	return n
}

func (g *G) simpleStmt(depth int) *Node {
	switch k := g.R.Intn(16); {
	case k < 6:
		return g.exprStmt(depth)
	case k == 6:
		var es []*Node
		for i, n := 0, g.R.Range(1, 3); i < n; i++ {
			es = append(es, g.exprTop(depth+1))
		}
		return &Node{Kind: "StmtEcho", Kids: []Kid{list("Exprs", es)}, Parts: parts(g.kw("echo"), sepList(es, ","), g.semi())}
	case k == 7:
		if g.R.Bool() {
			return &Node{Kind: "StmtReturn", Parts: parts(g.kw("return"), g.semi())}
		}
		e := g.exprTop(depth + 1)
		return &Node{Kind: "StmtReturn", Kids: []Kid{one("Expr", e)}, Parts: parts(g.kw("return"), e, g.semi())}
	case k == 8:
		kind, kwd := "StmtBreak", "break"
		if g.R.Bool() {
			kind, kwd = "StmtContinue", "continue"
		}
		if g.R.Bool() {
			return &Node{Kind: kind, Parts: parts(g.kw(kwd), g.semi())}
		}
		e := g.leaf("ScalarLnumber", strconv.Itoa(g.R.Range(1, 3)))
		return &Node{Kind: kind, Kids: []Kid{one("Expr", e)}, Parts: parts(g.kw(kwd), e, g.semi())}
	case k == 9:
		e := g.exprTop(depth + 1)
		return &Node{Kind: "StmtThrow", Kids: []Kid{one("Expr", e)}, Parts: parts(g.kw("throw"), e, g.semi())}
	case k == 10:
		var vs []*Node
		for i, n := 0, g.R.Range(1, 3); i < n; i++ {
			vs = append(vs, g.varExpr(depth+1, false))
		}
		ps := parts(g.kw("unset"), t("("), sepList(vs, ","))
		if g.php7() && g.R.Chance(1, 4) {
			ps = append(ps, t(","))
		}
		return &Node{Kind: "StmtUnset", Kids: []Kid{list("Vars", vs)}, Parts: parts(ps, t(")"), g.semi())}
	case k == 11:
		var vs []*Node
		for i, n := 0, g.R.Range(1, 3); i < n; i++ {
			switch g.R.Intn(4) {
			case 0:
				in := g.simpleVarPlain()
				vs = append(vs, &Node{Kind: "ExprVariable", Kids: []Kid{one("Name", in)}, Parts: parts(t("$"), in), Prec: 100})
			case 1:
				if g.O.Formatter {
					vs = append(vs, g.simpleVarPlain())
					continue
				}
				e := g.exprTop(depth + 1)
				vs = append(vs, &Node{Kind: "ExprVariable", Kids: []Kid{one("Name", e)}, Parts: parts(t("$"), t("{"), e, t("}")), Prec: 100})
			default:
				vs = append(vs, g.simpleVarPlain())
			}
		}
		return &Node{Kind: "StmtGlobal", Kids: []Kid{list("Vars", vs)}, Parts: parts(g.kw("global"), sepList(vs, ","), g.semi())}
	case k == 12:
		var vs []*Node
		for i, n := 0, g.R.Range(1, 3); i < n; i++ {
			v := g.simpleVarPlain()
			if g.R.Bool() {
				d := g.constExpr(depth + 1)
				vs = append(vs, &Node{Kind: "StmtStaticVar", Kids: []Kid{one("Var", v), one("Expr", d)}, Parts: parts(v, t("="), d)})
			} else {
				vs = append(vs, &Node{Kind: "StmtStaticVar", Kids: []Kid{one("Var", v)}, Parts: parts(v)})
			}
		}
		return &Node{Kind: "StmtStatic", Kids: []Kid{list("Vars", vs)}, Parts: parts(g.kw("static"), sepList(vs, ","), g.semi())}
	case k == 13 && g.inHeredoc == 0 && (!g.O.Formatter || g.O.Flex73):
		// formatter programs: only where the version will be 7.3+ (the formatter leaves code behind the closing
		// label on the same line, a recorded finding for older versions)
		return g.heredocStmt(depth)
	case k == 14:
		return &Node{Kind: "StmtNop", Parts: parts(t(";"))}
	}
	if g.O.Common {
		return g.exprStmt(depth) // the PHP 5 goto label span is a recorded divergence
	}
	// goto
	lbl := g.identifier(g.ident())
	return &Node{Kind: "StmtGoto", Kids: []Kid{one("Label", lbl)}, Parts: parts(g.kw("goto"), lbl, g.semi()), Flags: FKnownDiff}
}

func (g *G) ifStmt(depth int) *Node {
	cond := g.exprTop(depth + 1)
	n := &Node{Kind: "StmtIf"}
	if g.R.Chance(1, 3) {
		// alternative syntax
		b := g.altBody(depth + 1)
		n.Kids = []Kid{one("Cond", cond), one("Stmt", b)}
		n.Parts = parts(g.kw("if"), t("("), cond, t(")"), t(":"), b)
		var eis []*Node
		for i, k := 0, g.R.Intn(3); i < k; i++ {
			c := g.exprTop(depth + 1)
			eb := g.altBody(depth + 1)
			ei := &Node{Kind: "StmtElseIf", Kids: []Kid{one("Cond", c), one("Stmt", eb)}, Parts: parts(g.kw("elseif"), t("("), c, t(")"), t(":"), eb)}
			eis = append(eis, ei)
			n.Parts = append(n.Parts, ei)
		}
		n.Kids = append(n.Kids, list("ElseIf", eis))
		if g.R.Bool() {
			eb := g.altBody(depth + 1)
			el := &Node{Kind: "StmtElse", Kids: []Kid{one("Stmt", eb)}, Parts: parts(g.kw("else"), t(":"), eb)}
			n.Kids = append(n.Kids, one("Else", el))
			n.Parts = append(n.Parts, el)
		}
		n.Parts = append(n.Parts, g.kw("endif"), g.semi())
		return n
	}
	// the then-branch of an if with else must not be an if without else (dangling else):
	// generate exactly that case on purpose sometimes — the else then belongs to the inner if
	b := g.body(depth + 1)
	n.Kids = []Kid{one("Cond", cond), one("Stmt", b)}
	n.Parts = parts(g.kw("if"), t("("), cond, t(")"), b)
	var eis []*Node
	for i, k := 0, g.R.Intn(3); i < k; i++ {
		c := g.exprTop(depth + 1)
		eb := g.body(depth + 1)
		ei := &Node{Kind: "StmtElseIf", Kids: []Kid{one("Cond", c), one("Stmt", eb)}, Parts: parts(g.kw("elseif"), t("("), c, t(")"), eb)}
		eis = append(eis, ei)
		n.Parts = append(n.Parts, ei)
	}
	n.Kids = append(n.Kids, list("ElseIf", eis))
	if g.R.Bool() {
		var eb *Node
		if g.R.Chance(1, 3) && depth < g.O.MaxDepth {
			eb = g.ifStmt(depth + 1) // else if
		} else {
			eb = g.body(depth + 1)
		}
		el := &Node{Kind: "StmtElse", Kids: []Kid{one("Stmt", eb)}, Parts: parts(g.kw("else"), eb)}
		n.Kids = append(n.Kids, one("Else", el))
		n.Parts = append(n.Parts, el)
	}
	return n
}

// danglingElse: if (a) if (b) S1 else S2  — the else binds to the inner if.
func (g *G) danglingElse(depth int) *Node {
	a, b := g.exprTop(depth+1), g.exprTop(depth+1)
	s1, s2 := g.simpleStmt(depth+1), g.simpleStmt(depth+1)
	el := &Node{Kind: "StmtElse", Kids: []Kid{one("Stmt", s2)}, Parts: parts(g.kw("else"), s2)}
	inner := &Node{Kind: "StmtIf", Kids: []Kid{one("Cond", b), one("Stmt", s1), one("Else", el)}, Parts: parts(g.kw("if"), t("("), b, t(")"), s1, el)}
	return &Node{Kind: "StmtIf", Kids: []Kid{one("Cond", a), one("Stmt", inner)}, Parts: parts(g.kw("if"), t("("), a, t(")"), inner)}
}

func (g *G) loopBody(depth int, endKw string) (*Node, []interface{}) {
	if g.R.Chance(1, 3) {
		b := g.altBody(depth + 1)
		return b, parts(t(":"), b, g.kw(endKw), g.semi())
	}
	b := g.body(depth + 1)
	return b, parts(b)
}

func (g *G) exprList(depth, min, max int) []*Node {
	var es []*Node
	for i, n := 0, g.R.Range(min, max); i < n; i++ {
		es = append(es, g.exprTop(depth+1))
	}
	return es
}

func (g *G) compound(depth int) *Node {
	switch k := g.R.Intn(14); {
	case k < 3:
		return g.ifStmt(depth)
	case k == 3:
		return g.danglingElse(depth)
	case k == 4:
		c := g.exprTop(depth + 1)
		b, bp := g.loopBody(depth, "endwhile")
		return &Node{Kind: "StmtWhile", Kids: []Kid{one("Cond", c), one("Stmt", b)}, Parts: parts(g.kw("while"), t("("), c, t(")"), bp)}
	case k == 5:
		b := g.body(depth + 1)
		c := g.exprTop(depth + 1)
		return &Node{Kind: "StmtDo", Kids: []Kid{one("Stmt", b), one("Cond", c)}, Parts: parts(g.kw("do"), b, g.kw("while"), t("("), c, t(")"), g.semi())}
	case k == 6:
		i, c, l := g.exprList(depth, 0, 2), g.exprList(depth, 0, 2), g.exprList(depth, 0, 2)
		b, bp := g.loopBody(depth, "endfor")
		return &Node{Kind: "StmtFor", Kids: []Kid{list("Init", i), list("Cond", c), list("Loop", l), one("Stmt", b)},
			Parts: parts(g.kw("for"), t("("), sepList(i, ","), t(";"), sepList(c, ","), t(";"), sepList(l, ","), t(")"), bp)}
	case k == 7:
		return g.foreachStmt(depth)
	case k == 8:
		return g.switchStmt(depth)
	case k == 9:
		return g.tryStmt(depth)
	case k == 10:
		return g.block(depth+1, g.R.Intn(3))
	case k == 11:
		return g.declareStmt(depth)
	case k == 12:
		lbl := g.identifier(g.ident())
		return &Node{Kind: "StmtLabel", Kids: []Kid{one("Name", lbl)}, Parts: parts(lbl, t(":"))}
	}
	return g.functionDecl(depth)
}

func (g *G) foreachStmt(depth int) *Node {
	e := g.exprTop(depth + 1)
	n := &Node{Kind: "StmtForeach", Kids: []Kid{one("Expr", e)}}
	n.Parts = parts(g.kw("foreach"), t("("), e, g.kw("as"))
	if g.R.Chance(1, 3) {
		k := g.varExpr(depth+1, false)
		n.Kids = append(n.Kids, one("Key", k))
		n.Parts = append(n.Parts, k, t("=>"))
	}
	switch g.R.Intn(4) {
	case 0:
		v := g.varExpr(depth+1, false)
		n.Kids = append(n.Kids, one("Var", v))
		n.Parts = append(n.Parts, t("&"), v)
	case 1:
		v := g.listTarget(depth+1, true)
		n.Kids = append(n.Kids, one("Var", v))
		n.Parts = append(n.Parts, v)
	default:
		v := g.varExpr(depth+1, false)
		n.Kids = append(n.Kids, one("Var", v))
		n.Parts = append(n.Parts, v)
	}
	b, bp := g.loopBody(depth, "endforeach")
	n.Kids = append(n.Kids, one("Stmt", b))
	n.Parts = append(n.Parts, parts(t(")"), bp)...)
	return n
}

func (g *G) switchStmt(depth int) *Node {
	c := g.exprTop(depth + 1)
	var cases []*Node
	for i, k := 0, g.R.Intn(4); i < k; i++ {
		sep := g.R.Pick(":", ":", ";")
		ss := g.stmts(depth+1, g.R.Intn(3), false)
		if g.R.Chance(1, 4) {
			cases = append(cases, &Node{Kind: "StmtDefault", Kids: []Kid{list("Stmts", ss)}, Parts: parts(g.kw("default"), t(sep), nodesToParts(ss))})
		} else {
			e := g.exprTop(depth + 1)
			cases = append(cases, &Node{Kind: "StmtCase", Kids: []Kid{one("Cond", e), list("Stmts", ss)}, Parts: parts(g.kw("case"), e, t(sep), nodesToParts(ss))})
		}
	}
	n := &Node{Kind: "StmtSwitch", Kids: []Kid{one("Cond", c), list("Cases", cases)}}
	lead := []interface{}{}
	if g.R.Chance(1, 5) {
		lead = append(lead, t(";")) // switch ($a) { ; case ... }
	}
	if g.R.Chance(1, 3) {
		n.Parts = parts(g.kw("switch"), t("("), c, t(")"), t(":"), lead, nodesToParts(cases), g.kw("endswitch"), g.semi())
	} else {
		n.Parts = parts(g.kw("switch"), t("("), c, t(")"), t("{"), lead, nodesToParts(cases), t("}"))
	}
	return n
}

func (g *G) tryStmt(depth int) *Node {
	ss := g.stmts(depth+1, g.R.Intn(3), false)
	n := &Node{Kind: "StmtTry", Kids: []Kid{list("Stmts", ss)}}
	n.Parts = parts(g.kw("try"), t("{"), nodesToParts(ss), t("}"))
	var cs []*Node
	nc := g.R.Intn(3)
	if g.R.Chance(1, 6) {
		nc = g.R.Range(3, 4)
	}
	fin := g.R.Bool() || nc == 0
	for i := 0; i < nc; i++ {
		var tys []*Node
		nt := 1
		if g.php7() && g.R.Chance(1, 3) {
			nt = g.R.Range(2, 3)
		}
		for j := 0; j < nt; j++ {
			tys = append(tys, g.name(true))
		}
		v := g.simpleVarPlain()
		cb := g.stmts(depth+1, g.R.Intn(2), false)
		c := &Node{Kind: "StmtCatch", Kids: []Kid{list("Types", tys), one("Var", v), list("Stmts", cb)},
			Parts: parts(g.kw("catch"), t("("), sepList(tys, "|"), v, t(")"), t("{"), nodesToParts(cb), t("}"))}
		if nt > 1 {
			c.Flags |= FPhp7Only
		}
		cs = append(cs, c)
		n.Parts = append(n.Parts, c)
	}
	n.Kids = append(n.Kids, list("Catches", cs))
	if fin {
		fb := g.stmts(depth+1, g.R.Intn(2), false)
		f := &Node{Kind: "StmtFinally", Kids: []Kid{list("Stmts", fb)}, Parts: parts(g.kw("finally"), t("{"), nodesToParts(fb), t("}"))}
		n.Kids = append(n.Kids, one("Finally", f))
		n.Parts = append(n.Parts, f)
	}
	return n
}

func (g *G) declareStmt(depth int) *Node {
	var cs []*Node
	for i, k := 0, g.R.Range(1, 2); i < k; i++ {
		nm := g.identifier(g.R.Pick("ticks", "strict_types", "encoding", g.ident()))
		v := g.constExpr(g.O.MaxDepth)
		cs = append(cs, &Node{Kind: "StmtConstant", Kids: []Kid{one("Name", nm), one("Expr", v)}, Parts: parts(nm, t("="), v)})
	}
	n := &Node{Kind: "StmtDeclare", Kids: []Kid{list("Consts", cs)}}
	head := parts(g.kw("declare"), t("("), sepList(cs, ","), t(")"))
	switch g.R.Intn(3) {
	case 0:
		b := g.altBody(depth + 1)
		n.Kids = append(n.Kids, one("Stmt", b))
		n.Parts = parts(head, t(":"), b, g.kw("enddeclare"), g.semi())
	case 1:
		b := g.block(depth+1, g.R.Intn(2))
		n.Kids = append(n.Kids, one("Stmt", b))
		n.Parts = parts(head, b)
	default:
		b := &Node{Kind: "StmtNop", Parts: parts(t(";"))}
		n.Kids = append(n.Kids, one("Stmt", b))
		n.Parts = parts(head, b)
	}
	return n
}

func (g *G) functionDecl(depth int) *Node {
	n := &Node{Kind: "StmtFunction"}
	n.Parts = parts(g.kw("function"))
	if g.R.Chance(1, 5) {
		n.Parts = append(n.Parts, t("&"))
	}
	nm := g.identifier(g.ident())
	ps, pp := g.params(depth)
	n.Kids = append(n.Kids, one("Name", nm), list("Params", ps))
	n.Parts = append(n.Parts, parts(nm, pp)...)
	if rt, rp := g.returnType(); rt != nil {
		n.Kids = append(n.Kids, one("ReturnType", rt))
		n.Parts = append(n.Parts, rp...)
		n.Flags |= FPhp7Only
	}
	ss := g.stmts(depth+1, g.R.Intn(3), false)
	n.Kids = append(n.Kids, list("Stmts", ss))
	n.Parts = append(n.Parts, parts(t("{"), nodesToParts(ss), t("}"))...)
	return n
}

// ---------------------------------------------------------------------------------------------
// classes

func (g *G) modifiers(pool []string, max int) ([]*Node, []interface{}) {
	var ms []*Node
	var ps []interface{}
	perm := g.R.Perm(len(pool))
	for i, n := 0, g.R.Intn(max+1); i < n && i < len(pool); i++ {
		w := pool[perm[i]]
		tk := g.kw(w)
		id := &Node{Kind: "Identifier", Val: tk.S, HasVal: true, Parts: []interface{}{tk}}
		ms = append(ms, id)
		ps = append(ps, id)
	}
	return ms, ps
}

func (g *G) classMember(depth int, iface bool) *Node {
	switch k := g.R.Intn(10); {
	case k < 2: // constants
		var cs []*Node
		for i, n := 0, g.R.Range(1, 2); i < n; i++ {
			nm := g.identifier(g.ident())
			if g.php7() && g.R.Chance(1, 5) {
				w := g.reservedWord(true)
				for strings.EqualFold(w, "class") {
					w = g.reservedWord(true) // a class constant must not be called 'class'
				}
				nm = g.identifier(w)
			}
			v := g.constExpr(depth + 1)
			cs = append(cs, &Node{Kind: "StmtConstant", Kids: []Kid{one("Name", nm), one("Expr", v)}, Parts: parts(nm, t("="), v)})
		}
		n := &Node{Kind: "StmtClassConstList", Kids: []Kid{list("Consts", cs)}}
		var mp []interface{}
		if g.php7() && g.R.Chance(1, 3) {
			var ms []*Node
			ms, mp = g.modifiers([]string{"public", "protected", "private"}, 1)
			n.Kids = append(n.Kids, list("Modifiers", ms))
			if len(ms) > 0 {
				n.Flags |= FPhp7Only
			}
		}
		n.Parts = parts(mp, g.kw("const"), sepList(cs, ","), g.semi())
		return n
	case k < 4 && !iface: // properties
		var ps []*Node
		for i, n := 0, g.R.Range(1, 2); i < n; i++ {
			v := g.simpleVarPlain()
			if g.R.Bool() {
				d := g.constExpr(depth + 1)
				ps = append(ps, &Node{Kind: "StmtProperty", Kids: []Kid{one("Var", v), one("Expr", d)}, Parts: parts(v, t("="), d)})
			} else {
				ps = append(ps, &Node{Kind: "StmtProperty", Kids: []Kid{one("Var", v)}, Parts: parts(v)})
			}
		}
		n := &Node{Kind: "StmtPropertyList", Kids: []Kid{list("Props", ps)}}
		var mp []interface{}
		var ms []*Node
		if g.R.Chance(1, 4) {
			tk := g.kw("var")
			id := &Node{Kind: "Identifier", Val: tk.S, HasVal: true, Parts: []interface{}{tk}}
			ms, mp = []*Node{id}, []interface{}{id}
		} else {
			for len(ms) == 0 {
				ms, mp = g.modifiers([]string{"public", "static", "protected", "private"}, 2)
			}
		}
		n.Kids = append(n.Kids, list("Modifiers", ms))
		if g.php7() && g.R.Chance(1, 3) {
			ty := g.typeRef()
			n.Kids = append(n.Kids, one("Type", ty))
			mp = append(mp, ty)
			n.Flags |= FPhp7Only
		}
		n.Parts = parts(mp, sepList(ps, ","), g.semi())
		return n
	case k == 4 && !iface: // trait use
		return g.traitUse(depth)
	}
	// method
	n := &Node{Kind: "StmtClassMethod"}
	pool := []string{"public", "static", "final", "protected", "private"}
	abstract := !iface && g.R.Chance(1, 6)
	if abstract {
		pool = []string{"public", "static", "abstract", "protected"}
	}
	ms, mp := g.modifiers(pool, 3)
	if abstract {
		has := false
		for _, m := range ms {
			if strings.EqualFold(m.Val, "abstract") {
				has = true
			}
		}
		if !has {
			tk := g.kw("abstract")
			id := &Node{Kind: "Identifier", Val: tk.S, HasVal: true, Parts: []interface{}{tk}}
			ms = append(ms, id)
			mp = append(mp, id)
		}
	}
	n.Kids = append(n.Kids, list("Modifiers", ms))
	n.Parts = parts(mp, g.kw("function"))
	if g.R.Chance(1, 6) {
		n.Parts = append(n.Parts, t("&"))
	}
	nm := g.identifier(g.R.Pick(g.ident(), g.ident(), "__construct"))
	if g.php7() && g.R.Chance(1, 5) {
		nm = g.identifier(g.reservedWord(true))
	}
	ps, pp := g.params(depth)
	n.Kids = append(n.Kids, one("Name", nm), list("Params", ps))
	n.Parts = append(n.Parts, parts(nm, pp)...)
	if rt, rp := g.returnType(); rt != nil {
		n.Kids = append(n.Kids, one("ReturnType", rt))
		n.Parts = append(n.Parts, rp...)
		n.Flags |= FPhp7Only
	}
	if iface || abstract {
		b := &Node{Kind: "StmtNop", Parts: parts(t(";"))}
		n.Kids = append(n.Kids, one("Stmt", b))
		n.Parts = append(n.Parts, b)
	} else {
		b := g.block(depth+1, g.R.Intn(3))
		n.Kids = append(n.Kids, one("Stmt", b))
		n.Parts = append(n.Parts, b)
	}
	return n
}

func (g *G) traitUse(depth int) *Node {
	var ts []*Node
	for i, n := 0, g.R.Range(1, 3); i < n; i++ {
		ts = append(ts, g.name(true))
	}
	n := &Node{Kind: "StmtTraitUse", Kids: []Kid{list("Traits", ts)}}
	n.Parts = parts(g.kw("use"), sepList(ts, ","))
	if g.R.Bool() {
		n.Parts = append(n.Parts, g.semi())
		return n
	}
	var ads []*Node
	for i, k := 0, g.R.Intn(4); i < k; i++ {
		meth := g.identifier(g.ident())
		if g.php7() && g.R.Chance(1, 5) {
			meth = g.identifier(g.reservedWord(true))
		}
		var ref []interface{}
		a := &Node{}
		if g.R.Bool() {
			tr := g.name(true)
			a.Kids = append(a.Kids, one("Trait", tr))
			ref = parts(tr, t("::"))
		}
		a.Kids = append(a.Kids, one("Method", meth))
		if len(ref) > 0 && g.R.Chance(1, 3) {
			a.Kind = "StmtTraitUsePrecedence"
			var ins []*Node
			for j, m := 0, g.R.Range(1, 2); j < m; j++ {
				ins = append(ins, g.name(true))
			}
			a.Kids = append(a.Kids, list("Insteadof", ins))
			a.Parts = parts(ref, meth, g.kw("insteadof"), sepList(ins, ","), g.semi())
		} else {
			a.Kind = "StmtTraitUseAlias"
			a.Parts = parts(ref, meth, g.kw("as"))
			hasMod := g.R.Bool()
			if hasMod {
				tk := g.kw(g.R.Pick("public", "protected", "private"))
				id := &Node{Kind: "Identifier", Val: tk.S, HasVal: true, Parts: []interface{}{tk}}
				a.Kids = append(a.Kids, one("Modifier", id))
				a.Parts = append(a.Parts, id)
			}
			if !hasMod || g.R.Bool() {
				al := g.identifier(g.ident())
				if g.php7() && g.R.Chance(1, 4) {
					// without a modifier only the non-modifier reserved words can be an alias; with one, any identifier
					al = g.identifier(g.reservedWord(hasMod))
				}
				a.Kids = append(a.Kids, one("Alias", al))
				a.Parts = append(a.Parts, al)
			}
			a.Parts = append(a.Parts, g.semi())
		}
		ads = append(ads, a)
	}
	n.Kids = append(n.Kids, list("Adaptations", ads))
	n.Parts = append(n.Parts, parts(t("{"), nodesToParts(ads), t("}"))...)
	return n
}

func (g *G) classDecl(depth int, anon bool) *Node {
	n := &Node{Kind: "StmtClass"}
	if !anon {
		ms, mp := g.modifiers([]string{"abstract", "final"}, 1)
		n.Kids = append(n.Kids, list("Modifiers", ms))
		n.Parts = parts(mp, g.kw("class"))
		nm := g.identifier(g.ident())
		n.Kids = append(n.Kids, one("Name", nm))
		n.Parts = append(n.Parts, nm)
	} else {
		n.Parts = parts(g.kw("class"))
		if g.R.Bool() {
			as, ps := g.args(depth)
			n.Kids = append(n.Kids, list("Args", as))
			n.Parts = append(n.Parts, ps...)
		}
	}
	if g.R.Chance(1, 3) {
		e := g.name(true)
		n.Kids = append(n.Kids, one("Extends", e))
		n.Parts = append(n.Parts, g.kw("extends"), e)
	}
	if g.R.Chance(1, 3) {
		var is []*Node
		for i, k := 0, g.R.Range(1, 3); i < k; i++ {
			is = append(is, g.name(true))
		}
		n.Kids = append(n.Kids, list("Implements", is))
		n.Parts = append(n.Parts, parts(g.kw("implements"), sepList(is, ","))...)
	}
	var ss []*Node
	for i, k := 0, g.R.Intn(4); i < k; i++ {
		ss = append(ss, g.classMember(depth+1, false))
	}
	n.Kids = append(n.Kids, list("Stmts", ss))
	n.Parts = append(n.Parts, parts(t("{"), nodesToParts(ss), t("}"))...)
	return n
}

func (g *G) interfaceDecl(depth int) *Node {
	nm := g.identifier(g.ident())
	n := &Node{Kind: "StmtInterface", Kids: []Kid{one("Name", nm)}}
	n.Parts = parts(g.kw("interface"), nm)
	if g.R.Bool() {
		var es []*Node
		for i, k := 0, g.R.Range(1, 3); i < k; i++ {
			es = append(es, g.name(true))
		}
		n.Kids = append(n.Kids, list("Extends", es))
		n.Parts = append(n.Parts, parts(g.kw("extends"), sepList(es, ","))...)
	}
	var ss []*Node
	for i, k := 0, g.R.Intn(3); i < k; i++ {
		ss = append(ss, g.classMember(depth+1, true))
	}
	n.Kids = append(n.Kids, list("Stmts", ss))
	n.Parts = append(n.Parts, parts(t("{"), nodesToParts(ss), t("}"))...)
	return n
}

func (g *G) traitDecl(depth int) *Node {
	nm := g.identifier(g.ident())
	var ss []*Node
	for i, k := 0, g.R.Intn(3); i < k; i++ {
		ss = append(ss, g.classMember(depth+1, false))
	}
	return &Node{Kind: "StmtTrait", Kids: []Kid{one("Name", nm), list("Stmts", ss)}, Parts: parts(g.kw("trait"), nm, t("{"), nodesToParts(ss), t("}"))}
}

// ---------------------------------------------------------------------------------------------
// top level

func (g *G) useDecl(leadingSlash bool) *Node {
	ps := []*Node{g.leaf("NamePart", g.ident())}
	body := []interface{}{ps[0]}
	for i, k := 0, g.R.Intn(3); i < k; i++ {
		p := g.leaf("NamePart", g.ident())
		p.Parts = []interface{}{tn(p.Val)}
		ps = append(ps, p)
		body = append(body, tn("\\"), p)
	}
	nm := &Node{Kind: "Name", Kids: []Kid{list("Parts", ps)}, Parts: body}
	u := &Node{Kind: "StmtUse", Kids: []Kid{one("Use", nm)}}
	if leadingSlash && g.R.Chance(1, 5) {
		g2 := *nm
		g2.Parts = glue(nm.Parts)
		u.Parts = parts(t("\\"), &g2)
	} else {
		u.Parts = parts(nm)
	}
	if g.R.Chance(1, 3) {
		al := g.identifier(g.ident())
		u.Kids = append(u.Kids, one("Alias", al))
		u.Parts = append(u.Parts, g.kw("as"), al)
	}
	return u
}

func (g *G) useStmt() *Node {
	n := &Node{Kind: "StmtUseList"}
	n.Parts = parts(g.kw("use"))
	if g.R.Chance(1, 3) {
		tk := g.kw(g.R.Pick("function", "const"))
		id := &Node{Kind: "Identifier", Val: tk.S, HasVal: true, Parts: []interface{}{tk}}
		n.Kids = append(n.Kids, one("Type", id))
		n.Parts = append(n.Parts, id)
	}
	if g.php7() && g.R.Chance(1, 3) {
		// group use
		n.Kind = "StmtGroupUseList"
		n.Flags |= FPhp7Only
		if g.R.Chance(1, 4) {
			n.Parts = append(n.Parts, t("\\"))
		}
		ps := []*Node{g.leaf("NamePart", g.ident())}
		pfx := &Node{Kind: "Name", Kids: []Kid{list("Parts", ps)}, Parts: parts(ps[0])}
		if len(n.Parts) > 1 {
			if tk, ok := n.Parts[len(n.Parts)-1].(Tok); ok && tk.S == "\\" {
				pfx.Parts = glue(pfx.Parts)
			}
		}
		n.Kids = append(n.Kids, one("Prefix", pfx))
		n.Parts = append(n.Parts, pfx, tn("\\"), t("{"))
		var us []*Node
		mixed := len(n.Kids) == 1 && g.R.Chance(1, 3) // no Type on the list: members may carry one
		for i, k := 0, g.R.Range(1, 3); i < k; i++ {
			u := g.useDecl(false)
			if mixed && g.R.Bool() {
				tk := g.kw(g.R.Pick("function", "const"))
				id := &Node{Kind: "Identifier", Val: tk.S, HasVal: true, Parts: []interface{}{tk}}
				u.Kids = append(u.Kids, one("Type", id))
				u.Parts = append([]interface{}{id}, u.Parts...)
			}
			us = append(us, u)
		}
		n.Kids = append(n.Kids, list("Uses", us))
		n.Parts = append(n.Parts, sepList(us, ",")...)
		if g.R.Chance(1, 4) {
			n.Parts = append(n.Parts, t(","))
		}
		n.Parts = append(n.Parts, t("}"), g.semi())
		return n
	}
	var us []*Node
	for i, k := 0, g.R.Range(1, 3); i < k; i++ {
		us = append(us, g.useDecl(true))
	}
	n.Kids = append(n.Kids, list("Uses", us))
	n.Parts = append(n.Parts, parts(sepList(us, ","), g.semi())...)
	return n
}

func (g *G) constStmt(depth int) *Node {
	var cs []*Node
	for i, k := 0, g.R.Range(1, 2); i < k; i++ {
		nm := g.identifier(g.ident())
		v := g.constExpr(depth + 1)
		cs = append(cs, &Node{Kind: "StmtConstant", Kids: []Kid{one("Name", nm), one("Expr", v)}, Parts: parts(nm, t("="), v)})
	}
	return &Node{Kind: "StmtConstList", Kids: []Kid{list("Consts", cs)}, Parts: parts(g.kw("const"), sepList(cs, ","), g.semi())}
}

func (g *G) namespaceStmt(depth int, braced bool) *Node {
	n := &Node{Kind: "StmtNamespace"}
	n.Parts = parts(g.kw("namespace"))
	if !braced || g.R.Chance(2, 3) {
		nm := g.name(true)
		for nm.Kind != "Name" {
			nm = g.name(true)
		}
		n.Kids = append(n.Kids, one("Name", nm))
		n.Parts = append(n.Parts, nm)
	}
	if braced {
		ss := g.stmts(depth+1, g.R.Intn(3), true)
		n.Kids = append(n.Kids, list("Stmts", ss))
		n.Parts = append(n.Parts, parts(t("{"), nodesToParts(ss), t("}"))...)
	} else {
		n.Parts = append(n.Parts, g.semi())
	}
	return n
}

func (g *G) stmt(depth int, top bool) *Node {
	if depth >= g.O.MaxDepth {
		return g.simpleStmt(depth)
	}
	k := g.R.Intn(100)
	switch {
	case k < 45:
		return g.simpleStmt(depth)
	case k < 75:
		return g.compound(depth)
	case k < 82:
		return g.classDecl(depth, false)
	case k < 85:
		return g.interfaceDecl(depth)
	case k < 88:
		return g.traitDecl(depth)
	case k < 92 && top:
		return g.useStmt()
	case k < 95 && top:
		return g.constStmt(depth)
	}
	return g.functionDecl(depth)
}

func (g *G) stmts(depth, n int, top bool) []*Node {
	var out []*Node
	for i := 0; i < n; i++ {
		s := g.stmt(depth, top)
		out = append(out, s)
		// inside blocks too: close tag + inline HTML + open tag after a statement that ends in '}' (a definite StmtNop)
		if !top && !g.O.NoHTML && !g.O.Formatter && g.inHeredoc == 0 && g.R.Chance(1, 14) {
			html := g.R.Pick("<i>y</i>", "nested text", "c\nd\n", "<hr/>\r\n", "$z")
			h := &Node{Kind: "StmtInlineHtml", Val: html, HasVal: true, Parts: []interface{}{tn(html), tn(g.R.Pick("<?php", "<?PHP")), tg("", GapNeedWS)}}
			eat := g.closeTagNewline()
			if endsInBrace(s) {
				nop := &Node{Kind: "StmtNop", Parts: []interface{}{t("?>" + eat)}}
				out = append(out, nop, h)
			} else if g.closeTagAfterSemi(s, eat) {
				// "; ?>" is ONE token (the statement's semicolon): no empty statement
				out = append(out, h)
			}
		}
	}
	return out
}

// Program builds a whole file: optional leading inline HTML / shebang, open tag,
// statements (with close-tag/inline-HTML islands), optional __halt_compiler tail.
func (g *G) Program() *Node {
	root := &Node{Kind: "Root"}
	var ss []*Node
	var ps []interface{}
	if !g.O.NoHTML && g.R.Chance(1, 8) {
		html := g.R.Pick("<html>\n", "x", "a < b\n", "<!-- <? -->"[:5]+"\n", "line1\r\nline2\n")
		if strings.Contains(html, "<?") {
			html = "<p>\n"
		}
		h := &Node{Kind: "StmtInlineHtml", Val: html, HasVal: true, Parts: []interface{}{tn(html)}}
		ss = append(ss, h)
		ps = append(ps, h)
	}
	if !g.O.NoHTML && g.R.Chance(1, 10) {
		// a shebang line at offset 0 is no node: it travels with the first token
		ps = append([]interface{}{tn("#!/usr/bin/env php" + g.R.Pick("\n", "\n", "\r\n"))}, ps...)
	}
	open := g.R.Pick("<?php", "<?php", "<?PHP", "<?Php", "<?php", "<?php", "<?PHP", "<?")
	ps = append(ps, tn(open), tg("", GapNeedWS))
	nStmts := g.R.Range(1, g.O.MaxStmts)
	nsMode := g.R.Intn(6) // 0: semicolon namespaces, 1: braced namespaces, else none
	if g.O.Formatter && nsMode == 1 {
		nsMode = 5 // braced namespaces are a recorded formatter finding
	}
	for i := 0; i < nStmts; i++ {
		var s *Node
		switch {
		case nsMode == 0 && (i == 0 || g.R.Chance(1, 5)):
			s = g.namespaceStmt(1, false)
		case nsMode == 1:
			s = g.namespaceStmt(1, true)
		default:
			s = g.stmt(1, true)
		}
		ss = append(ss, s)
		ps = append(ps, s)
		// close tag + inline HTML + open tag after a statement that ends in '}' or ':' (a definite StmtNop)
		eat := g.closeTagNewline()
		if !g.O.NoHTML && g.R.Chance(1, 10) && (endsInBrace(s) || g.closeTagAfterSemi(s, eat)) {
			// "" = nothing between the close tag and the next open tag: no inline HTML node at all
			html := g.R.Pick("<b>x</b>", "text", "a\nb\n", "<br/>\r\n", "$x {$y}", "'\"`", "", "")
			h := &Node{Kind: "StmtInlineHtml", Val: html, HasVal: true, Parts: []interface{}{tn(html)}}
			if endsInBrace(s) {
				nop := &Node{Kind: "StmtNop", Parts: []interface{}{t("?>" + eat)}}
				ss = append(ss, nop)
				ps = append(ps, nop)
			}
			if html != "" {
				ss = append(ss, h)
				ps = append(ps, h)
			}
			if html != "" && g.R.Chance(1, 3) {
				// <?= expr ?> island
				e := g.exprTop(2)
				echo := &Node{Kind: "StmtEcho", Kids: []Kid{list("Exprs", []*Node{e})}, Parts: parts(tn("<?="), e, t("?>"))}
				h2 := &Node{Kind: "StmtInlineHtml", Val: "-", HasVal: true, Parts: []interface{}{tn("-")}}
				ss = append(ss, echo, h2)
				ps = append(ps, echo, h2)
			}
			ps = append(ps, tn(g.R.Pick("<?php", "<?PHP", "<?php", "<?")), tg("", GapNeedWS))
		}
	}
	if !g.O.NoHTML && g.R.Chance(1, 12) {
		tail := g.R.Pick("", " raw data \x00\x01 <?php ?> \r\n", "\nbinary\xff\xfe")
		h := &Node{Kind: "StmtHaltCompiler", Parts: parts(g.kw("__halt_compiler"), tg("(", GapBlank), tg(")", GapBlank), tg(";", GapBlank), tn(tail))}
		ss = append(ss, h)
		ps = append(ps, h)
	}
	root.Kids = []Kid{list("Stmts", ss)}
	root.Parts = ps
	return root
}

// closeTagAfterSemi turns the statement's final ';' into the token "; ?>" (semicolon, optional whitespace
// incl. line terminators, close tag — one token for the scanner, and no empty statement in the tree).
// closeTagNewline: the single line terminator a close tag swallows (part of the close-tag token).
func (g *G) closeTagNewline() string { return g.R.Pick("", "", "\n", "\r\n") }

func (g *G) closeTagAfterSemi(n *Node, eat string) bool {
	// the close tag alone may terminate the statement, unless a ';' stands in front of it: "; ?>" would be ONE
	// semicolon token (an empty statement written ';' behind another statement's ';' would vanish)
	text := ";" + OptWSNL + "?>" + eat
	toks := n.Tokens()
	last := len(toks) - 1
	for last >= 0 && toks[last].S == "" {
		last--
	}
	prev := last - 1
	for prev >= 0 && toks[prev].S == "" {
		prev--
	}
	if prev >= 0 && toks[prev].S != ";" && !strings.HasSuffix(toks[prev].S, "?>") && g.R.Chance(1, 3) {
		text = "?>" + eat
	}
	return setFinalSemi(n, text)
}

func setFinalSemi(n *Node, text string) bool {
	for i := len(n.Parts) - 1; i >= 0; i-- {
		switch v := n.Parts[i].(type) {
		case Tok:
			if v.S == "" {
				if v.Gap == GapNL {
					return false // a classic heredoc terminator needs its line terminator
				}
				continue
			}
			if v.S == ";" && !v.Str {
				v.S = text
				n.Parts[i] = v
				return true
			}
			return false
		case *Node:
			if v == nil {
				continue
			}
			return setFinalSemi(v, text)
		default:
			return false
		}
	}
	return false
}

func endsInBrace(n *Node) bool {
	toks := n.Tokens()
	for i := len(toks) - 1; i >= 0; i-- {
		if toks[i].S == "" {
			continue
		}
		return toks[i].S == "}"
	}
	return false
}

// endsWithOpenIf: the statement ends in a brace-less if that a following else/elseif would extend.
func endsWithOpenIf(n *Node) bool {
	kid := func(role string) *Node {
		for _, k := range n.Kids {
			if k.Role == role && !k.List {
				return k.N
			}
		}
		return nil
	}
	alt := false
	for _, p := range n.Parts {
		if tk, ok := p.(Tok); ok && tk.S == ":" {
			alt = true
		}
	}
	switch n.Kind {
	case "StmtIf":
		if alt {
			return false
		}
		if e := kid("Else"); e != nil {
			return endsWithOpenIf(e)
		}
		return true
	case "StmtElse", "StmtElseIf":
		if s := kid("Stmt"); s != nil && !alt {
			return endsWithOpenIf(s)
		}
	case "StmtWhile", "StmtFor", "StmtForeach", "StmtDeclare":
		if s := kid("Stmt"); s != nil && !alt {
			return endsWithOpenIf(s)
		}
	}
	return false
}
