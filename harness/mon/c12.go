package mon

import (
	"fmt"
	"reflect"

	"verif/harness/core"
	"verif/harness/gen"
	"verif/harness/obs"

	"github.com/z7zmey/php-parser/pkg/ast"
	"github.com/z7zmey/php-parser/pkg/visitor/traverser"
)

// C12 — traversal presents every node exactly once, parents first, in source order.
//
// Synthetic part (G5, exhaustive per kind for k<=12 slots): the recording visitor's
// sequence must equal [node, children in slot order...] (the reflection pre-order),
// each node delivered through the Visitor method of its own kind.
// Parsed part: sequence == reflection pre-order (so: every node once, nothing
// foreign, parents first), no node object reachable along two paths, and — for
// error-free parses — siblings delivered in non-decreasing StartPos order, which
// also monitors the assumption "struct field order = source order".

func c12Traverse(root ast.Vertex) (*RecVisitor, *obs.Panic) {
	rec := &RecVisitor{}
	p := obs.Try(func() { traverser.NewTraverser(rec).Traverse(root) })
	return rec, p
}

// One Traverser may walk many trees: the worker keeps one long-lived traverser (with its recording visitor,
// emptied between trees); every second parsed tree goes through it.
var c12Long struct {
	rec *RecVisitor
	t   *traverser.Traverser
	n   int
}

func c12TraverseLongLived(root ast.Vertex) (*RecVisitor, *obs.Panic) {
	if c12Long.t == nil {
		c12Long.rec = &RecVisitor{}
		c12Long.t = traverser.NewTraverser(c12Long.rec)
	}
	c12Long.rec.Nodes, c12Long.rec.Methods = nil, nil
	p := obs.Try(func() { c12Long.t.Traverse(root) })
	c12Long.n++
	out := &RecVisitor{Nodes: c12Long.rec.Nodes, Methods: c12Long.rec.Methods}
	if p != nil {
		c12Long.t = nil // a traverser interrupted by a panic is not used again
	}
	return out, p
}

// c12Compare checks the recorded sequence against the reflection pre-order.
func c12Compare(c *core.Ctx, root ast.Vertex, w core.Witness, parsed bool) int {
	var want []ast.Vertex
	seen := map[ast.Vertex]string{}
	dupSig := ""
	obs.Walk(root, func(n, parent ast.Vertex, role string, _ int) bool {
		if prev, dup := seen[n]; dup {
			if dupSig == "" {
				dupSig = "traverse|shared-node|" + obs.Kind(n) + "|" + prev + "+" + obs.Kind(parent) + "." + role
				c.Violation(dupSig, fmt.Sprintf("node object %s is reachable along two paths (%s and %s.%s)", obs.Kind(n), prev, obs.Kind(parent), role), w)
			}
			return false
		}
		seen[n] = obs.Kind(parent) + "." + role
		want = append(want, n)
		return true
	})
	rec, p := (*RecVisitor)(nil), (*obs.Panic)(nil)
	if parsed && len(want)%2 == 0 {
		rec, p = c12TraverseLongLived(root)
		w = w.With("traverser", fmt.Sprintf("one Traverser used for many trees (this is tree #%d)", c12Long.n))
		c.Add("trees_walked_by_a_long_lived_traverser", 1)
	} else {
		rec, p = c12Traverse(root)
	}
	if p != nil {
		c.Violation(p.Sig, "traverser panicked: "+p.Msg, w)
		return 0
	}
	if dupSig != "" {
		return len(want)
	}
	for i := 0; i < len(want) || i < len(rec.Nodes); i++ {
		switch {
		case i >= len(rec.Nodes):
			c.Violation("traverse|"+c12Where(root, want[i])+"|never-visited", fmt.Sprintf("node #%d (%s) of the tree was never handed to the visitor", i, obs.Kind(want[i])), w)
			return len(want)
		case i >= len(want):
			c.Violation("traverse|"+obs.Kind(rec.Nodes[i])+"|extra-visit", fmt.Sprintf("visitor received %d nodes, the tree has %d; first extra is a %s", len(rec.Nodes), len(want), obs.Kind(rec.Nodes[i])), w)
			return len(want)
		case rec.Nodes[i] != want[i]:
			cls := "out-of-order"
			if _, in := seen[rec.Nodes[i]]; !in {
				cls = "not-in-tree"
			} else {
				for j := 0; j < i; j++ {
					if rec.Nodes[j] == rec.Nodes[i] {
						cls = "visited-twice"
					}
				}
			}
			c.Violation("traverse|"+c12Where(root, want[i])+"|"+cls, fmt.Sprintf("visit #%d delivered %s where the pre-order walk has %s (%s)", i, obs.Kind(rec.Nodes[i]), obs.Kind(want[i]), c12Where(root, want[i])), w)
			return len(want)
		}
		if m := methodOf[obs.Kind(want[i])]; rec.Methods[i] != m {
			c.Violation("traverse|"+obs.Kind(want[i])+"|wrong-method", fmt.Sprintf("%s delivered through Visitor.%s instead of %s", obs.Kind(want[i]), rec.Methods[i], m), w)
			return len(want)
		}
	}
	return len(want)
}

// c12Rewrite: a visitor that rewrites the node it is being handed (constant folding, desugaring): when the visitor
// is given the root of a synthetic node it replaces every child of that node by a new leaf. What the traverser
// presents afterwards must be what the tree holds then — the replacements, in slot order — and nothing that has
// just been cut out of the tree.
func c12Rewrite(c *core.Ctx, root ast.Vertex, w core.Witness) {
	var repl, got []ast.Vertex
	var slots []string
	fv := &FuncVisitor{}
	fv.F = func(n ast.Vertex, _ string) {
		got = append(got, n)
		if n != root || repl != nil {
			return
		}
		rv := reflect.ValueOf(root).Elem()
		for _, f := range obs.Fields(root) {
			fld := rv.FieldByName(f.Name)
			switch f.Kind {
			case obs.FNode:
				if f.Node != nil {
					l := &ast.Identifier{Value: []byte("replacement")}
					fld.Set(reflect.ValueOf(l))
					repl = append(repl, l)
					slots = append(slots, f.Name)
				}
			case obs.FNodes:
				if len(f.Nodes) > 0 {
					nl := make([]ast.Vertex, len(f.Nodes))
					for i := range nl {
						l := &ast.Identifier{Value: []byte("replacement")}
						nl[i] = l
						repl = append(repl, l)
						slots = append(slots, f.Name)
					}
					fld.Set(reflect.ValueOf(nl))
				}
			}
		}
	}
	if p := obs.Try(func() { traverser.NewTraverser(fv).Traverse(root) }); p != nil {
		c.Violation(p.Sig, "traverser panicked under a rewriting visitor: "+p.Msg, w)
		return
	}
	if len(repl) == 0 {
		return
	}
	c.Add("rewriting_visitor_traversals", 1)
	want := append([]ast.Vertex{root}, repl...)
	for i := 0; i < len(want) || i < len(got); i++ {
		switch {
		case i >= len(got):
			c.Violation("traverse|rewrite|"+obs.Kind(root)+"."+slots[i-1]+"|replacement-never-presented", fmt.Sprintf("the visitor replaced the children of the %s it was handed; the new child in slot %s was never presented", obs.Kind(root), slots[i-1]), w)
			return
		case i >= len(want) || got[i] != want[i]:
			slot := "?"
			if i >= 1 && i-1 < len(slots) {
				slot = slots[i-1]
			}
			c.Violation("traverse|rewrite|"+obs.Kind(root)+"."+slot+"|detached-child-presented", fmt.Sprintf("the visitor replaced the children of the %s it was handed; visit #%d nevertheless delivered a %s that is not in the tree any more (slot %s)", obs.Kind(root), i, obs.Kind(got[i]), slot), w)
			return
		}
	}
}

// c12Where names the slot holding n: "<parent kind>.<role>".
func c12Where(root, n ast.Vertex) string {
	out := obs.Kind(n)
	obs.Walk(root, func(x, parent ast.Vertex, role string, _ int) bool {
		if x == n && parent != nil {
			out = obs.Kind(parent) + "." + role
			return false
		}
		return true
	})
	return out
}

func init() {
	core.Register(&core.Check{
		ID:   "C12",
		Rule: "cases = G5 synthetic nodes: every node kind x slot subsets (all 2^k for k<=12, else single/double toggles + PRNG subsets), the Stmt slot alternately holding a nested StmtStmtList, each also walked with a visitor that replaces the children of the node it is handed (the replacements must be presented, the detached children not)  ++  trees parsed from the shared parse workload (corpus, hostile inputs, generated programs of both families in PRNG layouts) under PRNG versions, every second one walked by a long-lived Traverser that has walked other trees before; non-trivial = a tree with at least 2 nodes was traversed; distinct by (kind, subset) / (input, version)",
		Assumptions: []string{
			"the reflection walk over exported ast.Vertex / []ast.Vertex fields in declaration order defines 'the tree' and slot order",
			"source order of siblings is judged by StartPos on error-free parses only (positions of trees with errors may be partial)",
		},
		Plan:       func(p core.Params) int { return len(synthCases(p)) + p.Pick(40000, 300000) },
		Exhaustive: func(p core.Params) bool { return false },
		Run: func(c *core.Ctx, idx int) {
			cases := synthCases(c.P)
			if idx < len(cases) {
				sc := cases[idx]
				zero := zeroOf(sc.Kind)
				s := &gen.Synth{R: core.NewRand(c.P.Seed, "C12", idx), PlainTok: true}
				n := s.Build(zero, sc.Present)
				w := core.Witness{Cfg: map[string]string{"kind": sc.Kind, "present": presentString(zero, sc.Present)}}
				k := c12Compare(c, n, w, false)
				c.Add("synthetic_nodes_visited", int64(k))
				c12Rewrite(c, n, w.With("visitor", "rewrites the children of the node it is handed"))
				c.Cover("synthetic_kinds", sc.Kind)
				if k >= 2 {
					c.NonTrivial([]byte(sc.Kind), []byte(w.Cfg["present"]))
				}
				if c.WantSample() && k > 4 {
					rec, _ := c12Traverse(n)
					c.Sample(map[string]interface{}{"kind": sc.Kind, "present": w.Cfg["present"], "visitor_methods_in_order": rec.Methods})
				}
				return
			}
			pc := genParseCase(c.P.Seed, "C12in", idx, 30)
			c12Input(c, pc.Src, pc.Ver)
		},
		RunWitness: func(c *core.Ctx, w core.Witness) { c12Input(c, w.Src, w.Ver) },
	})
}

func c12Input(c *core.Ctx, src []byte, ver string) {
	c.Inflight(src, "C12 parse "+ver)
	pr := obs.Parse(src, ver, true)
	if pr.Panic != nil || pr.Root == nil {
		return
	}
	w := core.W(src, ver)
	k := c12Compare(c, pr.Root, w, true)
	c.Add("parsed_nodes_visited", int64(k))
	if k >= 2 {
		c.NonTrivial(src, []byte(ver))
	}
	if len(pr.Errors) == 0 {
		// siblings in source order
		obs.Walk(pr.Root, func(n, _ ast.Vertex, _ string, _ int) bool {
			c.Cover("parsed_kinds", obs.Kind(n))
			last := -1
			var lastKid ast.Vertex
			for _, kid := range obs.Children(n) {
				p := kid.GetPosition()
				if p == nil || p.StartPos < 0 {
					continue
				}
				if p.StartPos < last {
					c.Violation(fmt.Sprintf("traverse|%s|siblings-out-of-source-order|%s>%s|fam%d", obs.Kind(n), obs.Kind(lastKid), obs.Kind(kid), obs.Fam(ver)),
						fmt.Sprintf("under %s child %s (start %d) is delivered after %s (start %d)", obs.Kind(n), obs.Kind(kid), p.StartPos, obs.Kind(lastKid), last), w)
					return false
				}
				last, lastKid = p.StartPos, kid
			}
			return true
		})
		c.Add("error_free_trees_checked_for_sibling_order", 1)
	}
}
