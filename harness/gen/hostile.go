package gen

import (
	"strings"

	"verif/harness/core"
)

// Torture is the hand-written lexical torture set: every input named in the
// property texts and in DESIGN.md §7, plus edge cases of every lexical construct.
var Torture = []string{
	"", "\r", "\n", "\r\n", "<", "<?", "<?p", "<?php", "<?php ", "<?php\n", "<?php\r", "<?php\r\n", "<?PHP ", "<?=", "<?= 1", "<?=1?>", "?>", "<?php ?>", "<?php ?>\n", "<?php ?>\r\n", "<?php ?>\rx",
	"abc<", "abc<?", "a<b<?php echo 1;", "<?php \r", "<?php \"a\r", "<?\"$", "<?`'{", "<?}", "<?php }", "<?php {", "<?php {}}", "<?<<<A\n ", "<?php <<<A\nA;", "<?php <<<A\nA;\n", "<?php <<<A\n  A;", "<?php <<<A\nA=",
	"<?php <<<A\n$$a\nA;", "<?php <<<A\n$", "<?php <<<A\n$a$\nA;\n", "<?php <<<A\n{$a}\nA;\n", "<?php <<<A\n${a}\nA;\n", "<?php <<<A\n$a[0] $a[b] $a[$c] $a->b\nA;\n", "<?php <<<'A'\n$a {$b}\nA;\n", "<?php <<<\"A\"\nx\nA;\n",
	"<?php <<<A\nx\n  A;\n", "<?php <<<A\n  x\n  A . 'y';\n", "<?php foo(<<<A\nx\nA, 1);\n", "<?php <<<A\nAB\nA;\n", "<?php <<<A\r\nx\r\nA;\r\n", "<?php <<<A\rx\rA;\r", "<?php b<<<A\nx\nA;\n", "<?php <<< A\nx\nA;\n", "<?php <<<A\n\nA;\n",
	"<?xml ?>x", "<?xml version=\"1.0\"?>\n<?php echo 1;", "<?XML\t?>\n<p><?= $a ?></p>", "<? echo 1 ?>", "<?\necho 1;", "a<?b?>c", "<?xmlx ?>", "<?x ml ?>", "<?php echo '<?xml version=\"1.0\"?>'; ?>\n<?xml ?>",
	"#!/bin/php\n<?php echo 1;", "#!/bin/php\n", "#!/bin/php", "#!/bin/php\r\n<?php echo 1;", "#!/bin/php\nabc<?php echo 1;", "#!x\n<?= 1;",
	"<?php 1and 2;", "<?php 1or 2;", "<?php 1xor 2;", "<?php $a=1instanceof B;", "<?php if(1)echo 1;else echo 2;", "<?php echo\"a\";", "<?php echo-1;", "<?php $a=+1;$b=-1;",
	"<?php \"$a\\\\\\\"b\";", "<?php `a\\\\\\`b $c`;", "<?php \"$a\\\\\";", "<?php \"\\$a\";", "<?php \"\\\\$a\";", "<?php \"\\{$a}\";", "<?php \"{\\$a}\";", "<?php \"$a[0]\";", "<?php \"$a[-1]\";", "<?php \"$a[b]\";", "<?php \"$a[$b]\";", "<?php \"$a[0x1A]\";", "<?php \"$a[0b11]\";", "<?php \"$a[1_0]\";", "<?php \"$a[-0x1A] $b[-0b11] $c[-99999999999999999999] $d[-08] t\";", "<?php <<<A\n$a[-0x1F] $a[-1]\nA;\n",
	"<?php \"$a->b\";", "<?php \"$a->b->c\";", "<?php \"$a->\";", "<?php \"${a}\";", "<?php \"${a[0]}\";", "<?php \"${a['x']}\";", "<?php \"${$a}\";", "<?php \"${foo()}\";", "<?php \"{$a}\";", "<?php \"{$a->b()}\";", "<?php \"{$a['x'][1]}\";", "<?php \"$\";", "<?php \"$ a\";", "<?php \"{ $a}\";", "<?php \"a{\";", "<?php \"a$\";", "<?php \"$a$b\";", "<?php \"$$a\";", "<?php \"$1\";",
	"<?php 'a\\'b';", "<?php 'a\\\\';", "<?php 'a\nb\r\nc\rd';", "<?php \"a\nb\r\nc\rd\";", "<?php b'x'; B\"y\"; b\"$a\";", "<?php `ls $a`;", "<?php ``;", "<?php \"\";", "<?php '';",
	"<?php /* c */ echo /** d */ 1 // e\n; # f\n", "<?php /**/ 1;", "<?php /***/ 1;", "<?php /** */ 1;", "<?php /* unterminated", "<?php // c ?> html", "<?php # c ?>\nhtml", "<?php // c\r echo 1;", "<?php // c\r\n echo 1;", "<?php //", "<?php #", "<?php /", "<?php /*",
	"<?php echo 1; /*c*/ ?>x", "<?php echo 1 ?>x", "<?php echo 1; ?>x", "<?php echo 1;\n?>\nx", "<?php echo 1 /*c*/ ?>x<?php echo 2;", "a<?php ?>b<?php ?>c", "a<?= $b ?>c<?= $d; ?>e", "<?php ?><?php ?>", "<?php if($a): ?>x<?php else: ?>y<?php endif; ?>z", "<?php switch($a): ?>\n<?php case 1: ?>x<?php endswitch;",
	"<?php __halt_compiler();", "<?php __halt_compiler(); data \x00\xff <?php", "<?php __halt_compiler();\n", "<?php __HALT_COMPILER ( ) ; x", "<?php __halt_compiler /*c*/ ();x", "<?php __halt_compiler()?>x", "<?php __halt_compiler", "<?php __halt_compiler(", "<?php __halt_compiler()", "<?php __halt_compiler(1);", "<?php {__halt_compiler();} x",
	"<?php 0;0x1F;0b101;017;1_000;0x1_F;1.5;.5;1.;1e3;1E-3;1.5e+3;9223372036854775807;9223372036854775808;0x7FFFFFFFFFFFFFFF;0xFFFFFFFFFFFFFFFF;0b1111111111111111111111111111111111111111111111111111111111111111111;0777777777777777777777;08;1__0;1_;0x;0b;1e;1e+;", "<?php 1.2.3;", "<?php 1..2;", "<?php 0x1for;",
	"<?php $a->b; $a->class; $a->list; $a-> /*c*/ b; $a->{'b'}; $a->{$b}(); $a->$b; $a->$b[0]; $a::b; $a::$b; $a::class; A::{'b'}();", "<?php $a -> \n b;", "<?php $a?->b;",
	"<?php (int)$a;(INT)$a;( int )$a;(\tinteger\t)$a;(bool)$a;(boolean)$a;(float)$a;(double)$a;(real)$a;(string)$a;(binary)$a;(array)$a;(object)$a;(unset)$a;(int /*c*/)$a;(int\n)$a;(integer1)$a;", "<?php (array)(object)(int)-$a;",
	"<?php yield from $a; yield\nfrom $a; yield /*c*/ from $a; YIELD FROM $a; yield  \r\n\t from $a; yield from;", "<?php function f(){ yield; yield 1; yield 1=>2; $a = yield; $a = (yield 1); }",
	"<?php namespace A; namespace A\\B {} namespace {} use A\\B; use A\\B as C, D; use function a\\b; use const A\\B; use A\\{B, C as D}; use function A\\{b}; use A\\{function b, const C, D}; use \\A; use A\\{B,};", "<?php namespace\\a(); namespace\\A::b; new namespace\\A; \\a\\b(); a\\b();",
	"<?php abstract final class A extends B implements C, D { const X = 1, Y = 2; public const Z = 3; var $a; public static ?int $b = 1, $c; use T, U { T::a insteadof U; U::a as protected b; a as c; b as public; } abstract protected function f(); final public static function &g(int ...$a): ?array { } function __construct(){} }",
	"<?php interface I extends J, K { function f(); const A = 1; } trait T { use U; } new class(1, ...$a) extends B implements C { }; new class {};", "<?php class A { public function list(){} const class = 1; function array(){} static function static(){} public $list; } A::list(); A::array; $a->list();",
	"<?php function &f(A $a, ?B &$b = null, callable ...$c): void {} function g(array $a = [], self $s = null, $x = A::B, $y = -1) { static $a, $b = 1; global $c, $$d, ${'e'}; }", "<?php $f = function &($a) use ($b, &$c): int { return 1; }; $g = static function() {}; $h = fn($x) => $x + 1; $i = static fn&(int ...$x): int => $x;",
	"<?php if ($a) b(); elseif ($c) d(); else if ($e) f(); else g(); if ($a): elseif ($b): else: endif; if ($a) if ($b) c(); else d();", "<?php while ($a) b(); while ($a): endwhile; do a(); while ($b); do { } while (0); for (;;) ; for ($i = 0, $j = 1; $i < 1, $j; $i++, $j--) {} for (;;): endfor; foreach ($a as $b) {} foreach ($a as $k => &$v): endforeach; foreach ($a as list($b, $c)) {} foreach ($a as [$b, 'k' => $c]) {}",
	"<?php switch ($a) { case 1: case 2; b(); break; default: c(); } switch ($a) { ; case 1: } switch ($a): endswitch; switch ($a) {} switch ($a): ; case 1: endswitch;", "<?php try { } catch (A | \\B\\C $e) { } catch (D $e) { } finally { } try {} finally {} throw new E(1); goto a; a: echo 1; declare(ticks=1); declare(strict_types=1, a=2) { } declare(a=1): enddeclare; unset($a, $b[0],); echo 1, 2; print 1; return; return 1; break; break 2; continue 3; ;",
	"<?php $a = [1, 2 => 3, 'a' => &$b, ...$c, [4], , ]; list($a, , list($b), 'k' => $c) = $d; [$a, [$b]] = $c; [, $a] = $b; array(1, 2,); array(); []; list() = $a; list(,) = $a; [&$a] = $b;", "<?php $a[] = 1; $a[0][1]{2}; $a{0}; 'abc'[0]; [1,2][0]; A::B[0]; (a())[0]; a()[0]; $a::$b[0]; $$a[0]; ${$a}[0]; ${'a' . 'b'}; $$$a;",
	"<?php new A; new A(); new $a; new $a->b; new $a->b[0]; new $a::$b; new A\\B(1, ...$c); new static; new self(); new parent; clone $a; new ($a); new (A::b());", "<?php a(); a(1, &$b, ...$c); a\\b(); \\a(); $a(); $a->b(); $a->b()(); $a::b(); A::b(); A::$b(); A::{$b}(); $a->{'b'}(); static::b(); parent::b(); isset($a, $b->c); empty($a); eval('1'); exit; exit(); exit(1); die; die('x'); include 'a'; include_once 'a'; require 'a'; require_once('a');",
	"<?php $a = $b + $c * $d ** $e ** $f - -$g . !$h instanceof I; $a = $b ? $c : $d ? $e : $f; $a = $b ?: $c; $a = $b ?? $c ?? $d; $a and $b or $c xor $d; $a = $b and $c; $a && $b || $c; $a | $b ^ $c & $d; $a << 1 >> 2; $a <=> $b; $a == $b; $a != $b; $a <> $b; $a === $b; $a !== $b; $a < $b; $a <= $b; $a > $b; $a >= $b; $a % $b / $c; @$a; ~$a; +$a; $a++; $a--; ++$a; --$a; print $a . $b; $a = &$b; $a = &new B; $a += 1; $a -= 1; $a *= 1; $a /= 1; $a .= 1; $a %= 1; $a &= 1; $a |= 1; $a ^= 1; $a <<= 1; $a >>= 1; $a **= 1; $a ??= 1;",
	"<?php __CLASS__; __DIR__; __FILE__; __FUNCTION__; __LINE__; __NAMESPACE__; __METHOD__; __TRAIT__; __class__; TRUE; null; A; \\A; namespace\\A; A::class; static::class; $a::class;", "<?php ECHO 1; Function F() {} CLASS a {} IF (1): ENDIF; New A; ARRAY(); LIST($a) = $b; PRINT 1; eXiT; DIE; Include 'a'; cfunction g() {} InstanceOf; AND; Or; xOR;",
	"<?php \x01 \x7f \xff\xfe ` \\ ", "<?php $\xe4\xf6 = 1; \xe4(); class \xc3\xa9 {}", "<?php @ # \n $ % ^ & * ( ) _ + = - [ ] { } | ; : , . < > / ? ~", "<?php $", "<?php $$", "<?php $1", "<?php ${", "<?php ${a", "<?php \"${", "<?php \"${a", "<?php \"{$", "<?php \"{$a", "<?php \"$a[", "<?php \"$a[0", "<?php \"$a->", "<?php '", "<?php \"", "<?php `", "<?php <<<", "<?php <<<A", "<?php <<<A\n", "<?php <<<'A", "<?php <<<'A'\n", "<?php <<<\"A\"\nx",
	"<?php function f() { return 1 } echo 2;", "<?php echo 1; ) ; echo 2;", "<?php echo 1; ] ; echo 2;", "<?php $x = ; echo 2;", "<?php foo( ; echo 2;", "<?php class A { function } function g(){}", "<?php if ($a { echo 1; } echo 2;", "<?php foreach($a as &$k=>$v){}", "<?php foreach([1] as &$k=>$v){}", "<?php foreach($a + $b as &$k=>&$v): endforeach;", "<?php foreach(array(1) as &$k=>$v) if(1){} \x01 ;", "<?php function f(...$a = 1) {}", "<?php function f(&...$a = 1, ...$b = 2) {}", "<?php $a = 'abc;", "<?php $a = 'abc'; '", "<?php $a = 1; \"", "<?php $a = 1; `", "<?php trait T extends A implements B {}", "<?php foreach($a as &$k=>$v) if(1){} \x01 ;",
	"<?php\necho 1;\r\necho 2;\recho 3;\n\n\r\r\n\r\n\n/* a\r\nb\rc\nd */\r'x\r\ny\rz';\r\n\"p\r\n$q\rr\";\n<<<A\r\n l1\r l2\n\r\nA;\r\n?>\r\nhtml\r\nmore\r<?php ?>\r<?php ?>\n",
}

// Insertion enumeration (part of G3): every torture snippet x every position x one inserted byte from a set
// of lexically loaded bytes (bytes the scanner skips with a warning, quotes, escapes, line terminators, tag
// and comment characters). The space is finite and enumerated completely.
var insBytes = []byte{0x00, 0x01, 0x7f, 0x80, '\r', '\n', '"', '\'', '`', '\\', '$', '{', '}', '?', '<', '/', '*', ' ', '[', '-'}

var insOffsets []int // insOffsets[k] = number of (position) slots before snippet k

func insInit() {
	if insOffsets != nil {
		return
	}
	n := 0
	for _, s := range Torture {
		insOffsets = append(insOffsets, n)
		n += len(s) + 1
	}
	insOffsets = append(insOffsets, n)
}

// InsCount is the size of the enumeration.
func InsCount() int { insInit(); return insOffsets[len(Torture)] * len(insBytes) }

// InsInput returns input number i of the enumeration.
func InsInput(i int) []byte {
	insInit()
	b := insBytes[i%len(insBytes)]
	slot := i / len(insBytes)
	k := 0
	for k+1 < len(Torture) && insOffsets[k+1] <= slot {
		k++
	}
	pos := slot - insOffsets[k]
	s := Torture[k]
	out := make([]byte, 0, len(s)+1)
	out = append(out, s[:pos]...)
	out = append(out, b)
	return append(out, s[pos:]...)
}

// fragments is the alphabet of the token soup generator: lexically loaded pieces.
var fragments = []string{
	"<?", "<?php ", "<?php\n", "<?=", "?>", "?>\n", "?>\r\n", "\"", "'", "`", "$", "${", "{$", "{", "}", "$a", "$a[", "]", "[", "->", "->b", "::", "<<<A\n", "<<<'A'\n", "<<<\"A\"\n", "<<<A\r\n", "\nA", "\nA;", "\n A;", "\nA\n", "A", "b", "a", "_", "\r", "\n", "\r\n", " ", "\t",
	"\\", "\\\\", "\\\"", "#", "//", "/*", "*/", "/**", "__halt_compiler", "(", ")", ";", "0x", "0b", "0", "1", ".", "e", "E+", "_1", "b\"", "B'", "\x00", "\x01", "\x7f", "\x80", "\xff", "=", "=>", "&", ",", ":", "?", "??", "!", "@", "+", "-", "*", "**", "/", "%", "<", ">", "<=>", "|", "^", "~",
	"yield", " from ", "yield from", "(int)", "( int )", "(unset)", "function", "fn", "class", "new", "static", "namespace", "use", "as", "list", "array", "echo", "print", "if", "else", "elseif", "endif", "while", "for", "foreach", "switch", "case", "default", "try", "catch", "finally", "goto", "declare", "const", "trait", "interface", "extends", "implements", "instanceof", "insteadof", "abstract", "final", "public", "var", "global", "unset", "isset", "empty", "exit", "die", "include", "return", "break", "and", "or", "xor", "clone", "throw", "do", "callable", "__LINE__", "\xe4\xf6",
	"$a->b", "$a[0]", "$a[b]", "$a[$b]", "$a[-1]", "${a}", "${a[0]}", "{$a}", "{$a->b}", "$$a", "$1", "$ ", "{ $",
	" trait T extends X {} ", " trait T implements I, J {} ", " foreach ($a as &$k => $v) {} ", " foreach (f() as &$k => &$v) ; ", " as &$k => ", "\xef\xbb\xbf",
}

// SemanticErrors5: statements the PHP 5 grammar reports from its actions (compile-time errors of PHP).
var SemanticErrors5 = []string{"trait T extends X {}", "trait T implements I {}", "trait T extends X implements I, J { function f() {} }", "foreach ($a as &$k => $v) {}", "foreach (f() as &$k => &$v) ;", "foreach ($a as &$k => $v): endforeach;"}

// Hostile produces one hostile input (G3): prefix truncation, token soup, byte
// mutation, splices, or random bytes, over the corpus and optional extra valid sources.
func Hostile(r *core.Rand, extra func(*core.Rand) []byte) []byte {
	cor := Corpus()
	base := func() []byte {
		if extra != nil && r.Chance(1, 3) {
			return extra(r)
		}
		return []byte(cor[r.Intn(len(cor))].Src)
	}
	switch k := r.Intn(20); {
	case k < 6: // prefix (truncation in the middle of any lexical construct)
		b := base()
		if len(b) == 0 {
			return b
		}
		return append([]byte(nil), b[:r.Intn(len(b)+1)]...)
	case k < 11: // token soup
		var sb strings.Builder
		if r.Chance(3, 4) {
			sb.WriteString(r.Pick("<?php ", "<?php\n", "<?", "<?= ", "x<?php "))
		}
		n := r.Range(1, 24)
		for i := 0; i < n; i++ {
			sb.WriteString(fragments[r.Intn(len(fragments))])
			if r.Chance(1, 4) {
				sb.WriteByte(' ')
			}
		}
		return []byte(sb.String())
	case k < 15: // byte-level mutation of a valid program
		b := append([]byte(nil), base()...)
		m := r.Range(1, 3)
		for i := 0; i < m && len(b) > 0; i++ {
			p := r.Intn(len(b))
			switch r.Intn(6) {
			case 0:
				b[p] ^= byte(1 << uint(r.Intn(8)))
			case 1:
				b = append(b[:p], b[p+1:]...)
			case 2:
				b = append(b[:p+1], b[p:]...)
			case 3:
				f := fragments[r.Intn(len(fragments))]
				b = append(b[:p], append([]byte(f), b[p:]...)...)
			case 4:
				b[p] = []byte("\r\n\"'`${}<>?\\#/*")[r.Intn(15)]
			case 5:
				q := r.Intn(len(b))
				if q < p {
					p, q = q, p
				}
				b = append(b[:p], b[q:]...)
			}
		}
		return b
	case k < 18: // splice of two programs
		a, b := base(), base()
		var out []byte
		if len(a) > 0 {
			out = append(out, a[:r.Intn(len(a)+1)]...)
		}
		if len(b) > 0 {
			out = append(out, b[r.Intn(len(b)):]...)
		}
		return out
	case k < 19: // random bytes
		n := r.Range(0, 64)
		b := make([]byte, n)
		for i := range b {
			b[i] = byte(r.Uint64())
		}
		if r.Bool() {
			b = append([]byte("<?php "), b...)
		}
		return b
	default: // unchanged valid source
		return append([]byte(nil), base()...)
	}
}
