#!/usr/bin/env python3
"""Regenerates /verif/MANIFEST.json from the table below and validates it against the schema."""
import json, sys, os
V = os.path.dirname(os.path.dirname(os.path.abspath(__file__)))
BUILT = set(sys.argv[1:]) if len(sys.argv) > 1 else None

checks = {
 "C18": dict(technique="runtime monitor over Pool.Get histories (pointer-distinctness and write-isolation oracle), exhaustive over a block-size grid",
             text="Every request count 0..4*size+3 for each block size of the grid (1..64 plus boundary sizes; thorough: 1..300 and up to 4097), for both pools, single and two interleaved pools: the monitor observes every returned pointer and re-reads every object after writes through all others. Exhaustive for the grid, nothing beyond it.",
             note="Trusted: Go map pointer identity; the harness' own value writer/reader. Block sizes outside the grid are not observed.", ref="§6 C18"),
}

def entry(pid, c):
    return {
        "property_id": pid,
        "quick_cmd": "./check %s --tier quick" % pid,
        "thorough_cmd": "./check %s --tier thorough" % pid,
        "evidence_file": "evidence/%s.json" % pid,
        "replay_cmd_template": "./check %s --replay {path}" % pid,
        "engine": "vcheck",
        "level_claimed": {"category": "exploration", "text": c["text"], "design_ref": c["ref"]},
        "level_note": c["note"],
        "technique": c["technique"],
    }

props = [json.loads(l)["id"] for l in open(os.path.join(V, "properties.jsonl"))]
built = [p for p in props if p in checks and (BUILT is None or p in BUILT)]
m = {
    "version": 1,
    "setup_cmd": "./check --build",
    "hooks": {
        "guard": "verif",
        "enable": "go build -tags verif (the harness module replaces github.com/z7zmey/php-parser with /repo and is built with -tags verif by ./check on every run)",
        "baseline_off_cmd": "cd /repo && GOFLAGS=-mod=mod GOPROXY=off GOSUMDB=off GOTOOLCHAIN=local go test -vet=off -count=1 ./...",
        "source_commits": ["f2fb8ed"],
        "add_only": True,
    },
    "engines": [{"name": "vcheck", "path": "harness/cmd/vcheck", "serves_properties": built,
                 "kind_free_text": "Go harness: deterministic case generators, child-process workers running the real library built with -tags verif (and -race where noted), online monitors and offline checkers over recorded observations, evidence/replay writer"}],
    "checks": [entry(p, checks[p]) for p in built],
    "not_applicable": [{"property_id": p, "reason": "check not built yet in this revision of /verif (work in progress, see DESIGN.md §11)"} for p in props if p not in built],
    "notes": "Runtime monitoring only. ./check <ID> rebuilds the harness against /repo's working tree on every invocation. Known findings: known-findings.jsonl. Seeded changes used to validate the monitors: seeded/.",
}
json.dump(m, open(os.path.join(V, "MANIFEST.json"), "w"), indent=1)
try:
    import jsonschema
    jsonschema.validate(m, json.load(open("/root/.vp/MANIFEST.schema.json")))
    print("MANIFEST.json valid;", len(built), "checks")
except ImportError:
    print("jsonschema not available; not validated")
