package obs

import (
	"bufio"
	"bytes"
	"fmt"
	"os"
	"reflect"
	"regexp"
	"runtime"
	"sort"
	"strings"
	"sync"
	"unsafe"

	"github.com/z7zmey/php-parser/pkg/ast"
	"github.com/z7zmey/php-parser/pkg/conf"
	"github.com/z7zmey/php-parser/pkg/errors"
	"github.com/z7zmey/php-parser/pkg/parser"
	"github.com/z7zmey/php-parser/pkg/position"
	"github.com/z7zmey/php-parser/pkg/token"
	"github.com/z7zmey/php-parser/pkg/version"
)

// ---------------------------------------------------------------------------------------------
// reference line counter

// Lines maps offsets to 1-based line numbers: a line start follows every LF and
// every CR that is not followed by LF.
type Lines struct{ starts []int }

func NewLines(src []byte) *Lines {
	l := &Lines{starts: []int{0}}
	for i, b := range src {
		if b == '\n' || (b == '\r' && (i+1 >= len(src) || src[i+1] != '\n')) {
			l.starts = append(l.starts, i+1)
		}
	}
	return l
}

// Line returns the line of the byte at offset q.
func (l *Lines) Line(q int) int {
	return sort.Search(len(l.starts), func(i int) bool { return l.starts[i] > q })
}

// ---------------------------------------------------------------------------------------------
// panic capture

// Panic describes a recovered library panic.
type Panic struct {
	Msg   string
	Sig   string // panic|<func>|<source text>|<message, numbers stripped>
	Stack string
	Verif bool // raised by a verif hook (budget / order assertion)
}

var (
	numRe   = regexp.MustCompile(`[0-9]+`)
	srcMu   sync.Mutex
	srcMemo = map[string][]string{}
)

func sourceLine(file string, line int) string {
	srcMu.Lock()
	defer srcMu.Unlock()
	ls, ok := srcMemo[file]
	if !ok {
		f, err := os.Open(file)
		if err == nil {
			sc := bufio.NewScanner(f)
			sc.Buffer(make([]byte, 1<<20), 1<<20)
			for sc.Scan() {
				ls = append(ls, sc.Text())
			}
			f.Close()
		}
		srcMemo[file] = ls
	}
	if line >= 1 && line <= len(ls) {
		return strings.Join(strings.Fields(ls[line-1]), " ")
	}
	return "?"
}

// Try runs f and converts a panic into a *Panic whose signature names the first
// frame inside the repository (function and source text of the line).
func Try(f func()) (p *Panic) {
	defer func() {
		r := recover()
		if r == nil {
			return
		}
		msg := fmt.Sprint(r)
		pcs := make([]uintptr, 64)
		n := runtime.Callers(2, pcs)
		frames := runtime.CallersFrames(pcs[:n])
		site, text := "?", "?"
		var sb strings.Builder
		found := false
		for {
			fr, more := frames.Next()
			fmt.Fprintf(&sb, "%s\n\t%s:%d\n", fr.Function, fr.File, fr.Line)
			if !found && strings.Contains(fr.Function, "z7zmey/php-parser") && !strings.Contains(fr.Function, "verifStep") && !strings.Contains(fr.Function, "verifLex") {
				found = true
				site = fr.Function[strings.Index(fr.Function, "z7zmey/php-parser")+len("z7zmey/php-parser/"):]
				text = sourceLine(fr.File, fr.Line)
			}
			if !more {
				break
			}
		}
		if strings.Contains(fmt.Sprintf("%T", r), "HarnessPanic") {
			panic(r)
		}
		verif := strings.HasPrefix(msg, "verif:")
		m := numRe.ReplaceAllString(msg, "N")
		if verif {
			// keep the hook kind, drop counters
			m = strings.SplitN(m, " steps=", 2)[0]
			m = strings.SplitN(m, " tokens=", 2)[0]
			m = strings.SplitN(m, " start=", 2)[0]
		}
		p = &Panic{Msg: msg, Sig: "panic|" + site + "|" + text + "|" + m, Stack: sb.String(), Verif: verif}
	}()
	f()
	return nil
}

// ---------------------------------------------------------------------------------------------
// parsing helper

type ParseResult struct {
	Root   ast.Vertex
	Err    error
	Errors []*errors.Error
	Panic  *Panic
}

func Ver(s string) *version.Version {
	if s == "" {
		return nil
	}
	v, err := version.New(s)
	if err != nil {
		panic("obs.Ver: " + err.Error())
	}
	return v
}

// Parse calls parser.Parse with a recording error handler (or nil when cb is false).
func Parse(src []byte, ver string, cb bool) ParseResult {
	var r ParseResult
	cfg := conf.Config{Version: Ver(ver)}
	if cb {
		cfg.ErrorHandlerFunc = func(e *errors.Error) { r.Errors = append(r.Errors, e) }
	}
	r.Panic = Try(func() { r.Root, r.Err = parser.Parse(src, cfg) })
	if IsNil(r.Root) {
		r.Root = nil
	}
	return r
}

// ParseWith is Parse with a caller-owned Version value (shared between calls by the caller).
func ParseWith(src []byte, v *version.Version, cb bool) ParseResult {
	var r ParseResult
	cfg := conf.Config{Version: v}
	if cb {
		cfg.ErrorHandlerFunc = func(e *errors.Error) { r.Errors = append(r.Errors, e) }
	}
	r.Panic = Try(func() { r.Root, r.Err = parser.Parse(src, cfg) })
	if IsNil(r.Root) {
		r.Root = nil
	}
	return r
}

// Fam returns 5 or 7 for a version string ("" means 7.4).
func Fam(ver string) int {
	if strings.HasPrefix(ver, "5.") {
		return 5
	}
	return 7
}

func ErrStrings(es []*errors.Error) []string {
	var out []string
	for _, e := range es {
		if e == nil {
			out = append(out, "<nil error>")
			continue
		}
		if e.Pos == nil {
			out = append(out, e.Msg+" @nil")
		} else {
			out = append(out, fmt.Sprintf("%s @%d:%d-%d:%d", e.Msg, e.Pos.StartLine, e.Pos.StartPos, e.Pos.EndLine, e.Pos.EndPos))
		}
	}
	return out
}

// ---------------------------------------------------------------------------------------------
// guarded input buffer

// Guard places the input in the middle of a larger array filled with canary bytes.
type Guard struct {
	all  []byte
	copy []byte
	off  int
	n    int
}

const guardPad = 64

func NewGuard(src []byte) *Guard {
	g := &Guard{off: guardPad, n: len(src)}
	g.all = make([]byte, len(src)+2*guardPad)
	for i := range g.all {
		g.all[i] = byte(0xA5 ^ i)
	}
	copy(g.all[guardPad:], src)
	g.copy = append([]byte(nil), g.all...)
	return g
}

// Buf is the slice to hand to the library: len = input, cap reaches into the canary.
func (g *Guard) Buf() []byte { return g.all[g.off : g.off+g.n] }

// Check returns the first changed offset relative to the input (negative or >= n for canary), or ok.
func (g *Guard) Check() (int, bool) {
	if bytes.Equal(g.all, g.copy) {
		return 0, true
	}
	for i := range g.all {
		if g.all[i] != g.copy[i] {
			return i - g.off, false
		}
	}
	return 0, true
}

// ---------------------------------------------------------------------------------------------
// provenance writer

// Chunk is one Write call of the printer.
type Chunk struct {
	Data []byte
	Off  int // offset into the source if the data aliases the source buffer, else -1
}

// Prov records every Write and recovers the source offset of chunks that alias src.
type Prov struct {
	src    []byte
	base   uintptr
	Chunks []Chunk
	Buf    bytes.Buffer
}

func NewProv(src []byte) *Prov {
	p := &Prov{src: src}
	if cap(src) > 0 {
		p.base = uintptr(unsafe.Pointer(unsafe.SliceData(src[:cap(src)])))
	}
	return p
}

func (p *Prov) Write(b []byte) (int, error) {
	off := -1
	if len(b) > 0 && cap(p.src) > 0 {
		a := uintptr(unsafe.Pointer(unsafe.SliceData(b)))
		if a >= p.base && a+uintptr(len(b)) <= p.base+uintptr(len(p.src)) {
			off = int(a - p.base)
		}
	}
	p.Chunks = append(p.Chunks, Chunk{Data: b, Off: off})
	p.Buf.Write(b)
	return len(b), nil
}

// ---------------------------------------------------------------------------------------------
// full fingerprint

// Fingerprint renders everything observable in a tree: kinds, roles, values,
// tokens (id, value, position, free-floating), node positions. With ptr=true it
// also includes raw addresses, slice len/cap (same-process before/after comparisons).
func Fingerprint(n ast.Vertex, ptr bool) string {
	var sb strings.Builder
	fp(&sb, n, ptr)
	return sb.String()
}

func fpPos(sb *strings.Builder, p *position.Position, ptr bool) {
	if p == nil {
		sb.WriteString("@nil")
		return
	}
	fmt.Fprintf(sb, "@%d:%d-%d:%d", p.StartLine, p.StartPos, p.EndLine, p.EndPos)
	if ptr {
		fmt.Fprintf(sb, "#%p", p)
	}
}

func fpTok(sb *strings.Builder, t *token.Token, ptr bool) { fpTokD(sb, t, ptr, 0) }

func fpTokD(sb *strings.Builder, t *token.Token, ptr bool, depth int) {
	if t == nil {
		sb.WriteString("nil")
		return
	}
	if depth > 3 {
		// free-floating tokens never carry free-floating tokens of their own in a sound tree;
		// a cycle (a token listed among its own free-floating tokens) must not hang the monitor
		sb.WriteString("{FREE-FLOATING-NESTING-TOO-DEEP}")
		return
	}
	fmt.Fprintf(sb, "{%d %q", int(t.ID), t.Value)
	fpPos(sb, t.Position, ptr)
	if ptr {
		fmt.Fprintf(sb, "#%p l%d c%d d%p ffl%d ffc%d", t, len(t.Value), cap(t.Value), unsafe.SliceData(t.Value), len(t.FreeFloating), cap(t.FreeFloating))
	}
	if len(t.FreeFloating) > 0 {
		sb.WriteString(" ff[")
		for _, f := range t.FreeFloating {
			fpTokD(sb, f, ptr, depth+1)
		}
		sb.WriteString("]")
	}
	sb.WriteString("}")
}

func fp(sb *strings.Builder, n ast.Vertex, ptr bool) {
	if n == nil {
		sb.WriteString("nil")
		return
	}
	if IsNil(n) {
		sb.WriteString("typednil:" + reflect.TypeOf(n).String())
		return
	}
	sb.WriteByte('(')
	sb.WriteString(Kind(n))
	if ptr {
		fmt.Fprintf(sb, "#%p", n)
	}
	for _, f := range Fields(n) {
		sb.WriteByte(' ')
		sb.WriteString(f.Name)
		sb.WriteByte('=')
		switch f.Kind {
		case FPos:
			fpPos(sb, f.Pos, ptr)
		case FTok:
			fpTok(sb, f.Tok, ptr)
		case FToks:
			if f.Toks == nil {
				sb.WriteString("niltoks")
			} else {
				fmt.Fprintf(sb, "toks%d[", len(f.Toks))
				if ptr {
					fmt.Fprintf(sb, "c%d d%p ", cap(f.Toks), unsafe.SliceData(f.Toks))
				}
				for _, t := range f.Toks {
					fpTok(sb, t, ptr)
				}
				sb.WriteByte(']')
			}
		case FNode:
			if f.V.IsNil() {
				sb.WriteString("nil")
			} else {
				fp(sb, f.V.Interface().(ast.Vertex), ptr)
			}
		case FNodes:
			if f.Nodes == nil {
				sb.WriteString("nilnodes")
			} else {
				fmt.Fprintf(sb, "nodes%d[", len(f.Nodes))
				if ptr {
					fmt.Fprintf(sb, "c%d d%p ", cap(f.Nodes), unsafe.SliceData(f.Nodes))
				}
				for i, c := range f.Nodes {
					if i > 0 {
						sb.WriteByte(' ')
					}
					fp(sb, c, ptr)
				}
				sb.WriteByte(']')
			}
		case FBytes:
			if f.Bytes == nil {
				sb.WriteString("nilbytes")
			} else {
				fmt.Fprintf(sb, "%q", f.Bytes)
				if ptr {
					fmt.Fprintf(sb, "l%d c%d d%p", len(f.Bytes), cap(f.Bytes), unsafe.SliceData(f.Bytes))
				}
			}
		}
	}
	sb.WriteByte(')')
}

// FirstDiff returns a short window around the first difference of two strings.
func FirstDiff(a, b string) string {
	i := 0
	for i < len(a) && i < len(b) && a[i] == b[i] {
		i++
	}
	if i == len(a) && i == len(b) {
		return ""
	}
	lo := i - 60
	if lo < 0 {
		lo = 0
	}
	ha, hb := i+80, i+80
	if ha > len(a) {
		ha = len(a)
	}
	if hb > len(b) {
		hb = len(b)
	}
	return fmt.Sprintf("at %d: …%s⟦%s⟧ vs ⟦%s⟧", i, a[lo:i], a[i:ha], b[i:hb])
}

// DiffPath walks two trees in parallel and names the first difference as
// "<parent kind>.<role>><kind>.<field>[:<what>]" (positions, tokens, values, kinds, list lengths).
func DiffPath(a, b ast.Vertex) string {
	return diffPath(a, b, "")
}

func posEq(p, q *position.Position) bool {
	if p == nil || q == nil {
		return p == q
	}
	return *p == *q
}

func tokDiff(s, t *token.Token) string { return tokDiffD(s, t, 0) }

func tokDiffD(s, t *token.Token, depth int) string {
	if depth > 3 {
		return "free-floating-nesting-too-deep"
	}
	switch {
	case s == nil && t == nil:
		return ""
	case s == nil || t == nil:
		return "presence"
	case s.ID != t.ID:
		return "id"
	case !bytes.Equal(s.Value, t.Value):
		return "value"
	case !posEq(s.Position, t.Position):
		return "position"
	case len(s.FreeFloating) != len(t.FreeFloating):
		return "free-floating-count"
	}
	for i := range s.FreeFloating {
		if d := tokDiffD(s.FreeFloating[i], t.FreeFloating[i], depth+1); d != "" {
			return "free-floating-" + d
		}
	}
	return ""
}

func diffPath(a, b ast.Vertex, ctx string) string {
	if IsNil(a) || IsNil(b) {
		if IsNil(a) != IsNil(b) {
			return ctx + ">" + Kind(a) + " vs " + Kind(b) + ":presence"
		}
		return ""
	}
	if Kind(a) != Kind(b) {
		return ctx + ">" + Kind(a) + " vs " + Kind(b) + ":kind"
	}
	fa, fb := Fields(a), Fields(b)
	k := Kind(a)
	for i := range fa {
		x, y := fa[i], fb[i]
		here := ctx + ">" + k + "." + x.Name
		switch x.Kind {
		case FPos:
			if !posEq(x.Pos, y.Pos) {
				return here
			}
		case FTok:
			if d := tokDiff(x.Tok, y.Tok); d != "" {
				return here + ":" + d
			}
		case FToks:
			if len(x.Toks) != len(y.Toks) {
				return here + ":count"
			}
			for j := range x.Toks {
				if d := tokDiff(x.Toks[j], y.Toks[j]); d != "" {
					return here + ":" + d
				}
			}
		case FBytes:
			if !bytes.Equal(x.Bytes, y.Bytes) {
				return here
			}
		case FNode:
			if d := diffPath(x.Node, y.Node, k+"."+x.Name); d != "" {
				return d
			}
		case FNodes:
			if len(x.Nodes) != len(y.Nodes) {
				return here + ":count"
			}
			for j := range x.Nodes {
				if d := diffPath(x.Nodes[j], y.Nodes[j], k+"."+x.Name); d != "" {
					return d
				}
			}
		}
	}
	return ""
}
