package mon

import (
	"fmt"
	"strings"

	"verif/harness/core"
	"verif/harness/gen"
	"verif/harness/obs"
)

// C03 — valid programs are accepted and yield the tree PHP's grammar prescribes.
//
// Oracle: the generator's derivation (gen.Node.Canon) — kinds, roles, order, verbatim
// values — compared with the structure projection of the returned tree; no error may
// be delivered. Operator grouping follows PHP's documented precedence table, rendered
// with minimal parentheses (every pair of parentheses is an ExprBrackets node).

func progVersion(r *core.Rand, fam int, flex bool) string {
	if fam == 5 {
		return gen.Versions5[r.Intn(len(gen.Versions5))]
	}
	if r.Chance(1, 10) {
		return "" // the omitted version means 7.4 (it has every PHP 7 syntax incl. the flexible heredoc)
	}
	if flex {
		return r.Pick("7.3", "7.4")
	}
	return gen.Versions7[r.Intn(len(gen.Versions7))]
}

// firstStructDiff locates the first difference of two canonical structure strings.
func structSig(want, got string) string {
	i := 0
	for i < len(want) && i < len(got) && want[i] == got[i] {
		i++
	}
	// the innermost "(Kind" before i, and the role before it
	ctx := func(s string) string {
		j := strings.LastIndex(s[:min(i+1, len(s))], "(")
		if j < 0 {
			return "?"
		}
		e := j + 1
		for e < len(s) && s[e] != ' ' && s[e] != ')' {
			e++
		}
		k := strings.LastIndexAny(s[:j], " [(")
		role := ""
		if k >= 0 && j > 0 {
			role = strings.TrimRight(s[k+1:j], ":[")
		}
		// parent kind
		depth := 0
		pk := ""
		for q := j - 1; q >= 0; q-- {
			if s[q] == ')' {
				depth++
			} else if s[q] == '(' {
				if depth == 0 {
					e2 := q + 1
					for e2 < len(s) && s[e2] != ' ' && s[e2] != ')' {
						e2++
					}
					pk = s[q+1 : e2]
					break
				}
				depth--
			}
		}
		return pk + "." + role + ">" + s[j+1:e]
	}
	return ctx(want) + " vs " + ctx(got)
}

type progCase struct {
	root *gen.Node
	g    *gen.G
	fam  int
	ver  string
}

func makeProgram(r *core.Rand, fam int, common bool, maxStmts int) progCase {
	flex := fam == 7 && !common && r.Chance(1, 3)
	g := gen.NewG(r.Split("prog"), gen.Opts{Fam: fam, Common: common, Flex73: flex, MaxDepth: r.Range(2, 5), MaxStmts: maxStmts})
	root := g.Program()
	ver := progVersion(r, fam, root.HasFlag(gen.FFlex73))
	return progCase{root, g, fam, ver}
}

func init() {
	// the shared parse workload gets generated programs from here
	extraProgram = func(r *core.Rand, fam int, flexOK bool) []byte {
		pc := makeProgram(r, fam, false, 6)
		mode := []int{gen.LayCanon, gen.LayMinimal, gen.LayLF, gen.LayCRLF, gen.LayComments, gen.LayMixed, gen.LayMixed}[r.Intn(7)]
		if pc.root.HasFlag(gen.FFlex73) && !flexOK {
			// keep it parseable for every 7.x version the caller may pick: regenerate without flexible heredocs
			g := gen.NewG(r.Split("prog2"), gen.Opts{Fam: fam, MaxDepth: 3, MaxStmts: 6})
			return gen.Render(g.Program().Tokens(), mode, r.Split("lay"), nil)
		}
		return gen.Render(pc.root.Tokens(), mode, r.Split("lay"), nil)
	}
}

// c03Soup: the string-first expression oracle (gen/exprsoup.go).
func c03Soup(c *core.Ctx, idx int) {
	r := core.NewRand(c.P.Seed, "C03soup", idx)
	fam := 7
	if r.Chance(2, 5) {
		fam = 5
	}
	src, want, valid, ops := gen.ExprSoup(r, fam)
	ver := progVersion(r, fam, false)
	c.Inflight([]byte(src), "C03 expression soup "+ver)
	pr := obs.Parse([]byte(src), ver, true)
	w := core.W([]byte(src), ver).With("oracle", "string-first precedence-climbing reference")
	c.Add("expression_soup_cases", 1)
	for i := 0; i+1 < len(ops); i++ {
		c.Res().Cover["soup_adjacent_operator_pairs"] = addTo(c.Res().Cover["soup_adjacent_operator_pairs"], ops[i]+" "+ops[i+1], 1)
	}
	if pr.Panic != nil {
		c.Violation(pr.Panic.Sig, "Parse panicked: "+pr.Panic.Msg, w)
		return
	}
	if !valid {
		c.Add("expression_soup_reference_says_syntax_error", 1)
		if len(pr.Errors) == 0 {
			c.Violation(fmt.Sprintf("soup|fam%d|accepts-nonassociative-chain", fam), "the reference parser rejects this expression (chain of non-associative operators), the parser accepted it silently", w)
		}
		return
	}
	if len(pr.Errors) > 0 {
		c.Violation(fmt.Sprintf("soup|fam%d|rejected|%s", fam, numStrip(pr.Errors[0].Msg)), "an unparenthesised expression that PHP's precedence rules accept is rejected: "+pr.Errors[0].String(), w)
		return
	}
	got := obs.StructureCanon(pr.Root)
	if exp := want.Canon(); got != exp {
		c.Violation(fmt.Sprintf("soup|fam%d|grouping|%s", fam, structSig(exp, got)), "operators group differently from PHP's documented precedence/associativity: "+obs.FirstDiff(exp, got), w)
		return
	}
	c.NonTrivial([]byte(src), []byte(ver))
}

func c03Case(c *core.Ctx, idx int) {
	if idx%3 == 2 {
		c03Soup(c, idx)
		return
	}
	r := core.NewRand(c.P.Seed, "C03", idx)
	fam := 7
	if r.Chance(2, 5) {
		fam = 5
	}
	pc := makeProgram(r, fam, false, 8)
	want := pc.root.Canon()
	toks := pc.root.Tokens()
	kinds := map[string]int{}
	pc.root.CountKinds(kinds)
	for k := range kinds {
		c.Cover(fmt.Sprintf("constructs_fam%d", fam), k)
	}
	for k, v := range pc.g.Ops {
		c.Res().Cover["operator_nesting_pairs"] = addTo(c.Res().Cover["operator_nesting_pairs"], k, int64(v))
	}
	layouts := []int{gen.LayCanon, []int{gen.LayMinimal, gen.LayLF, gen.LayCRLF, gen.LayComments, gen.LayMixed}[r.Intn(5)]}
	for _, mode := range layouts {
		src := gen.Render(toks, mode, r.Split("lay"), nil)
		c.Inflight(src, "C03 parse "+pc.ver)
		pr := obs.Parse(src, pc.ver, true)
		w := core.W(src, pc.ver).With("layout", gen.LayoutNames[mode])
		c.Add("parses", 1)
		if pr.Panic != nil {
			c.Violation(pr.Panic.Sig, "Parse panicked on a valid generated program: "+pr.Panic.Msg, w)
			return
		}
		if len(pr.Errors) > 0 {
			e := pr.Errors[0]
			near := ""
			if e.Pos != nil && e.Pos.StartPos >= 0 && e.Pos.StartPos <= len(src) {
				near = ctxAt(src, e.Pos.StartPos)
			}
			c.Violation(fmt.Sprintf("accept|fam%d|%s|in:%s", fam, numStrip(e.Msg), slotAtErr(pr, e)), fmt.Sprintf("valid program rejected under %s: %s near %s", pc.ver, e.String(), near), w)
			return
		}
		if pr.Root == nil {
			c.Violation(fmt.Sprintf("accept|fam%d|nil-root", fam), "no error but nil root", w)
			return
		}
		got := obs.StructureCanon(pr.Root)
		if got != want {
			c.Violation(fmt.Sprintf("tree|fam%d|%s", fam, structSig(want, got)), "returned tree differs from the derivation: "+obs.FirstDiff(want, got), w)
			return
		}
	}
	// version-specific syntax must be rejected by the versions that do not have it
	canon := gen.Render(toks, gen.LayCanon, r.Split("lay2"), nil)
	if fam == 7 && pc.root.HasFlag(gen.FPhp7Only) {
		v5 := gen.Versions5[r.Intn(len(gen.Versions5))]
		pr := obs.Parse(canon, v5, true)
		c.Add("php7_only_programs_tried_under_5x", 1)
		if pr.Panic == nil && len(pr.Errors) == 0 {
			c.Violation("version-syntax|php7-only-accepted-under-5x", "a program using PHP 7-only syntax was accepted without any error under "+v5, core.W(canon, v5))
			return
		}
	}
	if pc.root.HasFlag(gen.FFlex73) {
		vOld := r.Pick("7.0", "7.1", "7.2", "5.6", "5.3")
		pr := obs.Parse(canon, vOld, true)
		c.Add("flexible_heredoc_programs_tried_before_7.3", 1)
		if pr.Panic == nil && len(pr.Errors) == 0 {
			c.Violation("version-syntax|flexible-heredoc-accepted-before-7.3", "a program with an indented heredoc terminator was accepted without any error under "+vOld, core.W(canon, vOld))
			return
		}
	}
	c.Cover("family", fmt.Sprint(fam))
	c.Cover("version", pc.ver)
	c.NonTrivial([]byte(want), []byte(pc.ver))
	if c.WantSample() && len(toks) > 20 && len(toks) < 70 {
		c.Sample(map[string]interface{}{"program_canonical_layout": string(gen.Render(toks, gen.LayCanon, r, nil)), "version": pc.ver, "expected_structure": trunc(want, 700)})
	}
}

func addTo(m map[string]int64, k string, v int64) map[string]int64 {
	if m == nil {
		m = map[string]int64{}
	}
	m[k] += v
	return m
}

func init() {
	core.Register(&core.Check{
		ID:   "C03",
		Rule: "cases = known-finding witnesses ++ generated programs (G1: every statement and expression form of the PHP 5 / PHP 7 grammars nested to PRNG depth, operators parenthesised minimally from PHP's documented precedence table, keywords/casts in PRNG letter case) rendered in the canonical and one PRNG trivia layout, parsed under a PRNG version of the family that has the syntax ++ version-specific acceptance probes ++ (every third case) a random unparenthesised operator/operand token string judged by an independent precedence-climbing reference parser (expected tree, or syntax error for non-associative chains); non-trivial = program accepted and structure compared; distinct by (expected structure, version)",
		Assumptions: []string{
			"the generator's construct -> (kind, roles) mapping is the specification of the AST; operator grouping comes from php.net's precedence/associativity table for PHP 7.4 (5.6 for the 5.x family)",
			"'valid' means derivable from PHP's grammar; semantic restrictions (abstract final, duplicate modifiers, mixing namespace forms) are out of scope",
		},
		Plan: func(p core.Params) int { return p.Pick(150000, 2000000) },
		Run:  func(c *core.Ctx, idx int) { c03Case(c, idx) },
		RunWitness: func(c *core.Ctx, w core.Witness) {
			pr := obs.Parse(w.Src, w.Ver, true)
			ww := core.W(w.Src, w.Ver)
			tag := "|witness:" + w.Cfg["tag"]
			if pr.Panic != nil {
				c.Violation(pr.Panic.Sig, "panic: "+pr.Panic.Msg, ww)
				return
			}
			if len(pr.Errors) > 0 {
				c.Violation(fmt.Sprintf("accept|fam%d|%s", obs.Fam(w.Ver), numStrip(pr.Errors[0].Msg))+tag, "valid program rejected: "+pr.Errors[0].String(), ww)
				return
			}
			if want := w.Cfg["expect_structure"]; want != "" {
				if got := obs.StructureCanon(pr.Root); got != want {
					c.Violation(fmt.Sprintf("tree|fam%d|%s", obs.Fam(w.Ver), structSig(want, got))+tag, "tree differs: "+obs.FirstDiff(want, got), ww)
				}
			}
			c.NonTrivial(w.Src, []byte(w.Ver))
		},
		MinNonTrivial: 500,
	})
}

// slotAtErr names the construct kind the error position falls into (best effort): the
// token id of the error message is enough to tell defects apart, so only the message counts.
func slotAtErr(pr obs.ParseResult, e interface{ String() string }) string {
	return "-"
}
