package mon

import (
	"sync"

	"verif/harness/core"
	"verif/harness/gen"
	"verif/harness/obs"
)

// Shared parse workload of C01/C02/C04/C05/C13: one case = (source bytes, version, class).
//
//	hostile : G3 (prefixes, token soup, byte mutations, splices, random bytes)
//	newline : a corpus snippet or generated program with its line terminators rewritten (LF / CRLF / CR / mixed)
//	corpus  : a corpus snippet as is
//	big     : concatenation of error-free corpus bodies crossing the 1024-entry pool blocks
//	program : a G1/G2 generated program (valid by construction) in a PRNG trivia layout
//	lines   : segments with 0..40 line terminators inside one token or between two (column-0 starts, all token kinds)
//	scaled  : one construct repeated or nested n times (71 shapes, n up to 70 000 / 400 KB): size and count thresholds

type parseCase struct {
	Src   []byte
	Ver   string
	Class string
}

// extraProgram, when set (by the program generator), yields a valid program for the family.
var extraProgram func(r *core.Rand, fam int, flexOK bool) []byte

var (
	bodyOKmu sync.Mutex
	bodyOK   = map[string]bool{}
)

func bodyParses(b string) bool {
	bodyOKmu.Lock()
	v, ok := bodyOK[b]
	bodyOKmu.Unlock()
	if ok {
		return v
	}
	v = true
	for _, ver := range []string{"5.6", "7.4"} {
		pr := obs.Parse([]byte("<?php "+b), ver, true)
		if pr.Panic != nil || pr.Root == nil || len(pr.Errors) > 0 {
			v = false
		}
	}
	bodyOKmu.Lock()
	bodyOK[b] = v
	bodyOKmu.Unlock()
	return v
}

// validMix: weights of the valid-source classes (used by C02/C04/C05 which need error-free parses).
func pickVersion(r *core.Rand) string {
	switch r.Intn(6) {
	case 0:
		return "5.6"
	case 1:
		return "7.4"
	case 2:
		return "7.2"
	}
	return gen.VersionsAll[r.Intn(len(gen.VersionsAll))]
}

func genParseCase(seed int64, label string, idx int, hostileShare int) parseCase {
	pc := genParseCase0(seed, label, idx, hostileShare)
	if core.NewRand(seed, label+"bom", idx).Chance(1, 80) {
		// a UTF-8 byte order mark in front of the file is inline HTML like any other text
		pc.Src = append([]byte("\xef\xbb\xbf"), pc.Src...)
		pc.Class += "+bom"
	}
	return pc
}

func genParseCase0(seed int64, label string, idx int, hostileShare int) parseCase {
	r := core.NewRand(seed, label, idx)
	ver := pickVersion(r)
	fam := obs.Fam(ver)
	cor := gen.Corpus()
	prog := func(rr *core.Rand) []byte {
		if rr.Chance(1, 4) {
			// a namespace program (G6): imports that are hit by the references
			root, _ := gen.NSProgram(rr.Split("ns"), fam)
			return gen.Render(root.Tokens(), []int{gen.LayCanon, gen.LayMinimal, gen.LayLF, gen.LayCRLF, gen.LayComments, gen.LayMixed}[rr.Intn(6)], rr.Split("lay"), nil)
		}
		if extraProgram != nil {
			return extraProgram(rr, fam, ver == "7.3" || ver == "7.4")
		}
		return []byte(cor[rr.Intn(len(cor))].Src)
	}
	k := r.Intn(100)
	if r.Chance(1, 25) {
		// a scaled valid program: one construct repeated or nested n times (thresholds in counts, lines, offsets, depth)
		maxN, maxDeep, maxBytes := 2000, 150, 60000
		switch {
		case len(label) >= 3 && (label[:3] == "C01" || label[:3] == "C02" || label[:3] == "C04" || label[:3] == "C05" || label[:3] == "C07" || label[:3] == "C12"):
			maxN, maxDeep, maxBytes = 70000, 1500, 400000
		}
		src, _, _ := gen.Scaled(r.Split("scaled"), fam, maxN, maxDeep, maxBytes)
		return parseCase{src, ver, "scaled"}
	}
	if r.Chance(1, 30) {
		return parseCase{gen.LineSweep(r.Split("lines")), ver, "lines"}
	}
	switch {
	case k < hostileShare:
		return parseCase{gen.Hostile(r, prog), ver, "hostile"}
	case k < hostileShare+(100-hostileShare)*30/100:
		base := []byte(cor[r.Intn(len(cor))].Src)
		if r.Chance(1, 2) {
			base = prog(r)
		}
		return parseCase{gen.NewlineVariant(r, base, []int{1, 1, 1, 2, 3, 4, 4, 0}[r.Intn(8)]), ver, "newline"}
	case k < hostileShare+(100-hostileShare)*45/100:
		return parseCase{[]byte(cor[r.Intn(len(cor))].Src), ver, "corpus"}
	case k < hostileShare+(100-hostileShare)*52/100:
		size := []int{9000, 20000, 40000}[r.Intn(3)]
		return parseCase{gen.Big(r, size, bodyParses), ver, "big"}
	default:
		return parseCase{prog(r), ver, "program"}
	}
}
