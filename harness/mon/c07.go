package mon

import (
	"fmt"
	"strings"

	"verif/harness/core"
	"verif/harness/gen"
	"verif/harness/obs"

	"github.com/z7zmey/php-parser/pkg/ast"
)

// C07 — a syntax error costs only the statement it is in.
//
// (1) Recovery: a generated valid program (PHP mode only) gets one benign malformed
//     statement M inserted at a statement boundary of one of its statement lists (top
//     level, function/method/closure bodies, blocks, alternative-syntax bodies, case
//     bodies, try/catch/finally, braced namespaces). Both the clean and the broken
//     source are parsed (canonical layout, so the bytes before M are identical):
//       - an error must be delivered;
//       - if a tree is returned: the list that contained the boundary must still exist
//         (same kind, same start offset), its statements before M must be identical to
//         the clean parse (full fingerprint: tokens, positions), and the statements
//         after M must follow (structure).
// (2) Provenance: every tree returned together with errors (recovery cases and hostile
//     inputs) is printed through the provenance writer: every chunk either points into
//     the source — each source byte at most once, in increasing order — or is printer
//     glue ("<?php ", one blank, "?>").

type stmtList struct {
	node  ast.Vertex
	kind  string
	start int // start offset of the node; for a brace-less (alternative syntax) body: of its parent
	end   int
	alt   bool
	stmts []ast.Vertex
}

// stmtLists collects the statement lists (kinds with an error production) of a tree.
func stmtLists(root ast.Vertex) []stmtList {
	var out []stmtList
	obs.Walk(root, func(n, parent ast.Vertex, _ string, _ int) bool {
		k := obs.Kind(n)
		if !gen.StmtListKinds[k] {
			return true
		}
		alt := false
		if sl, ok := n.(*ast.StmtStmtList); ok && sl.OpenCurlyBracketTkn == nil {
			alt = true
		}
		for _, f := range obs.Fields(n) {
			if f.Name == "Stmts" && f.Kind == obs.FNodes {
				st, en := nodeSpan(n)
				if alt {
					// a brace-less body has no token of its own: it is identified through its parent
					st, en = nodeSpan(parent)
				}
				out = append(out, stmtList{n, k, st, en, alt, f.Nodes})
			}
		}
		return true
	})
	return out
}

func nodeSpan(n ast.Vertex) (int, int) {
	if obs.IsNil(n) {
		return -1, -1
	}
	p := n.GetPosition()
	if p == nil {
		return -1, -1
	}
	return p.StartPos, p.EndPos
}

var printerGlue = map[string]bool{"<?php ": true, " ": true, "?>": true}

// checkProvenance prints a tree returned with errors and validates the chunks.
func checkProvenance(c *core.Ctx, root ast.Vertex, src []byte, ver string) bool {
	w := core.W(src, ver)
	fam := fmt.Sprintf("fam%d", obs.Fam(ver))
	pv, pn := printTree(root, src)
	if pn != nil {
		c.Violation(pn.Sig, "printer panicked on a tree returned with errors: "+pn.Msg, w)
		return false
	}
	last := 0
	c.Add("recovery_trees_printed", 1)
	for i, ch := range pv.Chunks {
		if len(ch.Data) == 0 {
			continue
		}
		if ch.Off < 0 {
			if !printerGlue[string(ch.Data)] {
				g := string(ch.Data)
				if len(g) > 16 {
					g = g[:16]
				}
				c.Violation("provenance|invented-text|"+fam+"|"+fmt.Sprintf("%q", g), fmt.Sprintf("printing the tree returned with errors writes %q (chunk %d), which is neither source text nor printer glue", ch.Data, i), w)
				return false
			}
			continue
		}
		if ch.Off < last {
			cls := "reordered"
			if ch.Off+len(ch.Data) > 0 && ch.Off < last {
				cls = "duplicated-or-reordered"
			}
			c.Violation("provenance|"+cls+"|"+fam+"|"+slotAt(root, ch.Off), fmt.Sprintf("printing the tree returned with errors writes source bytes %d..%d %q after bytes up to %d were already written", ch.Off, ch.Off+len(ch.Data), trunc(string(ch.Data), 40), last), w)
			return false
		}
		last = ch.Off + len(ch.Data)
		c.Add("source_chunks_checked", 1)
	}
	return true
}

func c07Recovery(c *core.Ctx, idx int) {
	r := core.NewRand(c.P.Seed, "C07", idx)
	fam := 7
	if r.Chance(2, 5) {
		fam = 5
	}
	g := gen.NewG(r.Split("prog"), gen.Opts{Fam: fam, NoHTML: true, MaxDepth: r.Range(2, 4), MaxStmts: 6})
	root := g.Program()
	ver := progVersion(r, fam, false)
	if root.HasFlag(gen.FFlex73) {
		ver = "7.4"
	}
	toks := root.Tokens()
	sites := gen.ListSites(root)
	if len(sites) == 0 {
		c.Inconclusive("program without statement list")
		return
	}
	clean := gen.Render(toks, gen.LayCanon, r, nil)
	cp := obs.Parse(clean, ver, true)
	if cp.Panic != nil || len(cp.Errors) > 0 || cp.Root == nil {
		c.Inconclusive("clean program not accepted (C03's business)")
		return
	}
	cleanLists := stmtLists(cp.Root)
	tries := c.P.Pick(4, 12)
	for k := 0; k < tries; k++ {
		site := sites[r.Intn(len(sites))]
		bi := r.Intn(len(site.Boundaries))
		j := site.Boundaries[bi]
		m := gen.Benign[r.Intn(len(gen.Benign))]
		for m[0] == "}" && site.Kind != "Root" {
			m = gen.Benign[r.Intn(len(gen.Benign))]
		}
		if r.Chance(1, 6) {
			// a forgotten semicolon in the last statement of a braced list
			last := len(site.Boundaries) - 1
			if jj := site.Boundaries[last]; jj < len(toks) && toks[jj].S == "}" && !toks[jj].Str && site.Kind != "Root" {
				bi, j = last, jj
				m = gen.BenignOpen[r.Intn(len(gen.BenignOpen))]
				c.Add("recovery_cases_with_an_unterminated_last_statement", 1)
			}
		}
		var mt []gen.Tok
		for _, s := range m {
			mt = append(mt, gen.Tok{S: s})
		}
		bt := append(append(append([]gen.Tok{}, toks[:j]...), mt...), toks[j:]...)
		broken := gen.Render(bt, gen.LayCanon, r, nil)
		off := len(gen.Render(toks[:j], gen.LayCanon, r, nil))
		if off > len(clean) || string(broken[:off]) != string(clean[:off]) {
			core.Fail("C07: canonical rendering is not prefix-stable")
		}
		w := core.W(broken, ver).With("malformed_statement", strings.Join(m, " ")).With("inserted_at_offset", fmt.Sprint(off)).With("list_kind", site.Kind)
		c.Inflight(broken, "C07 parse "+ver)
		bp := obs.Parse(broken, ver, true)
		c.Add("recovery_cases", 1)
		c.Cover("list_kinds", site.Kind)
		c.Cover("malformed_statements", strings.Join(m, " "))
		if bp.Panic != nil {
			c.Add("parses_that_panicked(C01's business)", 1)
			continue
		}
		sigBase := fmt.Sprintf("recovery|fam%d|%s|M=%s|", fam, site.Kind, strings.Join(m, ""))
		if len(bp.Errors) == 0 {
			c.Violation(sigBase+"no-error", "a malformed statement was inserted but no error was delivered", w)
			return
		}
		if bp.Root == nil {
			c.Violation(sigBase+"no-tree", "a benign malformed statement (it ends in its own ';' or is closed in by the '}' of its block) cost the whole file: no tree is returned", w)
			return
		}
		// the clean list containing the boundary: innermost list whose statements split around off
		var cl *stmtList
		split := 0
		for i := range cleanLists {
			l := &cleanLists[i]
			s, e := l.start, l.end
			if l.kind != "Root" && (s < 0 || e < 0 || off < s || off > e) {
				continue
			}
			sp, ok := 0, true
			for q, st := range l.stmts {
				a, b := nodeSpan(st)
				if a < 0 || b < 0 {
					ok = false
					break
				}
				if b <= off {
					sp = q + 1
				} else if a < off {
					ok = false // off falls inside a statement: not this list
					break
				}
			}
			if !ok || l.kind != site.Kind || len(l.stmts) != site.NStmts || sp != bi {
				continue
			}
			if cl == nil || l.start >= cl.start {
				cl, split = l, sp
			}
		}
		if cl == nil {
			c.Inconclusive("insertion point not located in the clean tree")
			continue
		}
		// the same list in the broken tree: same kind and start offset; an alternative-syntax body and a
		// block that is its first statement share both, so the position among such candidates counts too
		var bl *stmtList
		brokenLists := stmtLists(bp.Root)
		ci := 0
		for i := range cleanLists {
			l := &cleanLists[i]
			if l == cl {
				break
			}
			if l.kind == cl.kind && l.start == cl.start && l.alt == cl.alt {
				ci++
			}
		}
		for i := range brokenLists {
			l := &brokenLists[i]
			if l.kind == cl.kind && l.start == cl.start && l.alt == cl.alt {
				if ci == 0 {
					bl = l
					break
				}
				ci--
			}
		}
		if cl.kind == "Root" {
			bl = &stmtList{node: bp.Root, kind: "Root"}
			for _, f := range obs.Fields(bp.Root) {
				if f.Name == "Stmts" {
					bl.stmts = f.Nodes
				}
			}
		}
		if bl == nil {
			c.Violation(sigBase+"list-lost", fmt.Sprintf("the %s that contained the malformed statement (start offset %d) is not in the returned tree any more: the error cost more than the statement it is in", cl.kind, cl.start), w)
			return
		}
		if len(bl.stmts) < split {
			c.Violation(sigBase+"preceding-lost", fmt.Sprintf("%d well-formed statements precede the malformed one in its %s, the returned list has only %d", split, cl.kind, len(bl.stmts)), w)
			return
		}
		for q := 0; q < split; q++ {
			a, b := obs.Fingerprint(cl.stmts[q], false), obs.Fingerprint(bl.stmts[q], false)
			if a != b {
				c.Violation(sigBase+"preceding-changed|"+obs.Kind(cl.stmts[q]), fmt.Sprintf("statement #%d before the malformed one differs from the clean parse: %s", q, obs.FirstDiff(a, b)), w)
				return
			}
		}
		after := cl.stmts[split:]
		if len(bl.stmts)-split < len(after) {
			c.Violation(sigBase+"following-lost", fmt.Sprintf("%d statements follow the malformed one in its %s, only %d are left in the returned list", len(after), cl.kind, len(bl.stmts)-split), w)
			return
		}
		tail := bl.stmts[len(bl.stmts)-len(after):]
		for q := range after {
			a, b := obs.StructureCanon(after[q]), obs.StructureCanon(tail[q])
			if a != b {
				c.Violation(sigBase+"following-changed|"+obs.Kind(after[q]), fmt.Sprintf("statement #%d after the malformed one differs in structure from the clean parse: %s", q, obs.FirstDiff(a, b)), w)
				return
			}
		}
		c.Add("preceding_statements_compared", int64(split))
		c.Add("following_statements_compared", int64(len(after)))
		if cl.kind != "Root" {
			// the error may not leak out of the top-level statement it is in: the top-level statements behind that one
			// are still the last statements of the returned root, with the same structure
			var ctop, btop []ast.Vertex
			for _, f := range obs.Fields(cp.Root) {
				if f.Name == "Stmts" {
					ctop = f.Nodes
				}
			}
			for _, f := range obs.Fields(bp.Root) {
				if f.Name == "Stmts" {
					btop = f.Nodes
				}
			}
			k := 0
			for k < len(ctop) {
				if _, e := nodeSpan(ctop[k]); e >= off || e < 0 {
					break
				}
				k++
			}
			if k < len(ctop) {
				rest := ctop[k+1:]
				if len(btop) < len(rest) {
					c.Violation(sigBase+"outer-following-lost", fmt.Sprintf("%d top-level statements follow the top-level statement that contains the malformed one, the returned root has only %d statements", len(rest), len(btop)), w)
					return
				}
				tailTop := btop[len(btop)-len(rest):]
				for q := range rest {
					if a, b := obs.StructureCanon(rest[q]), obs.StructureCanon(tailTop[q]); a != b {
						c.Violation(sigBase+"outer-following-changed|"+obs.Kind(rest[q]), fmt.Sprintf("top-level statement #%d behind the one that contains the malformed statement differs from the clean parse: %s", q, obs.FirstDiff(a, b)), w)
						return
					}
				}
				c.Add("outer_following_statements_compared", int64(len(rest)))
			}
		}
		if !checkProvenance(c, bp.Root, broken, ver) {
			return
		}
		if c.WantSample() && len(broken) < 220 {
			c.Sample(map[string]interface{}{"clean": string(clean), "broken": string(broken), "malformed_statement": strings.Join(m, " "), "list": cl.kind, "statements_before": split, "statements_after": len(after), "errors": obs.ErrStrings(bp.Errors), "version": ver})
		}
	}
	c.Cover("family", fmt.Sprint(fam))
	c.NonTrivial(clean, []byte(ver))
}

// c07Burst: MANY malformed statements in one file. k = 2..90 well-formed statement texts (corpus bodies that
// parse cleanly alone) are joined into one statement list — at top level or inside a function body — once as
// they are and once with a benign malformed statement inserted behind a PRNG subset of them (up to all of
// them). Every well-formed statement of the clean parse must still be in the recovered list, in order and
// with the same structure ("parsing continues after it", however many errors came before), and the tree
// must print as a sub-sequence of the source.
type c07Wrapper struct {
	name, pre, post string
	php7, noHeredoc bool
}

var c07Wrappers = []c07Wrapper{
	{"function-body", "<?php\nfunction f() {\n", "\n}\n", false, false},
	{"function-body", "<?php\nfunction f() {\n", "\n}\n", false, false},
	{"method-body", "<?php\nclass K {\npublic function m() {\n", "\n}\n}\n", false, false},
	{"closure-in-call", "<?php\n$s = $f(function() {\n", "\n});\nlast();\n", false, false},
	{"closure-in-double-quotes", "<?php\n$s = \"x {$f(function() {\n", "\n})} y\";\nlast();\n", false, true},
	{"closure-in-heredoc", "<?php\n$s = <<<ZZEOT\nx {$f(function() {\n", "\n})} y\nZZEOT;\nlast();\n", false, true},
	{"closure-in-backticks", "<?php\n$s = `x {$f(function() {\n", "\n})} y`;\nlast();\n", false, true},
	{"closure-in-dollar-brace", "<?php\n$s = \"x ${f(function() {\n", "\n})} y\";\nlast();\n", false, true},
	{"closure-in-interpolated-dim", "<?php\n$s = \"x {$a[f(function() {\n", "\n})]} y\";\nlast();\n", false, true},
	{"closure-in-nested-interpolation", "<?php\n$s = \"a {$b[\"c {$f(function() {\n", "\n})} d\"]} e\";\nlast();\n", false, true},
	{"braced-block-in-if", "<?php\nif ($c) {\n", "\n} else { other(); }\n", false, false},
	{"alt-while-body", "<?php\nwhile ($c):\n", "\nendwhile;\nlast();\n", false, false},
	{"try-body", "<?php\ntry {\n", "\n} catch (E $e) { other(); }\n", false, false},
	{"finally-body", "<?php\ntry { other(); } finally {\n", "\n}\n", false, false},
	{"anonymous-class-method", "<?php\n$o = new class { function m() {\n", "\n} };\n", true, false},
	{"static-closure-in-array-in-string", "<?php\n$s = \"x {$t['k'](static function() {\n", "\n})} y\";\n", false, true},
}

func c07Burst(c *core.Ctx, idx int) {
	r := core.NewRand(c.P.Seed, "C07burst", idx)
	nested := r.Chance(1, 3)
	k := r.Range(2, 12)
	if r.Chance(1, 3) {
		k = r.Range(30, 90)
	}
	bs := gen.Bodies()
	var parts []string
	short := r.Chance(1, 2)
	for len(parts) < k {
		if short && r.Chance(3, 4) {
			// short statements, each unique: errors come a few tokens apart
			i := len(parts)
			parts = append(parts, []string{fmt.Sprintf("f%d();", i), fmt.Sprintf("$v%d = %d;", i, i), fmt.Sprintf("echo %d;", i), fmt.Sprintf("$o->m%d($a, %d);", i, i), fmt.Sprintf("if ($c) { g%d(); }", i)}[r.Intn(5)])
			continue
		}
		b := bs[r.Intn(len(bs))]
		if !bodyParses(b) || len(b) > 400 {
			continue
		}
		if nested {
			low := strings.ToLower(b)
			if strings.Contains(low, "namespace") || strings.Contains(low, "use ") || strings.Contains(low, "const") || strings.Contains(low, "declare") {
				continue
			}
		}
		parts = append(parts, strings.TrimSpace(b))
	}
	ver := pickVersion(r)
	// the context of the list: top level, or a statement list nested in a wrapper — also wrappers that put the
	// list inside an interpolation, where the scanner is several states deep when the error is met
	pre, post, wrapper := "<?php\n", "\n", "top-level"
	if nested {
		ws := c07Wrappers
		wr := ws[r.Intn(len(ws))]
		for (wr.php7 && obs.Fam(ver) != 7) || (wr.noHeredoc && strings.Contains(strings.Join(parts, "\n"), "<<<")) {
			wr = ws[r.Intn(len(ws))]
		}
		pre, post, wrapper = wr.pre, wr.post, wr.name
	}
	pre += "zzfirst();\n"
	every := r.Chance(1, 2)
	// half of the bursts use only the short malformed statements (2..3 tokens): errors a few tokens apart, many in a row
	pool := gen.Benign[1:]
	if r.Bool() {
		pool = gen.Benign[1:17]
	}
	var clean, broken strings.Builder
	clean.WriteString(pre)
	broken.WriteString(pre)
	inserted := 0
	for _, b := range parts {
		clean.WriteString(b + "\n")
		broken.WriteString(b + "\n")
		if every || r.Chance(1, 2) {
			m := pool[r.Intn(len(pool))]
			broken.WriteString(strings.Join(m, " ") + "\n")
			inserted++
		}
	}
	clean.WriteString(post)
	broken.WriteString(post)
	cp := obs.Parse([]byte(clean.String()), ver, true)
	if cp.Panic != nil || cp.Root == nil || len(cp.Errors) > 0 {
		c.Inconclusive("burst: the joined well-formed statements are not accepted together")
		return
	}
	if inserted == 0 {
		return
	}
	src := []byte(broken.String())
	w := core.W(src, ver).With("malformed_statements_inserted", fmt.Sprint(inserted)).With("well_formed_texts", fmt.Sprint(k)).With("wrapper", wrapper)
	c.Inflight(src, "C07 burst "+ver)
	bp := obs.Parse(src, ver, true)
	c.Add("burst_cases", 1)
	c.Max("max_malformed_statements_in_one_file", int64(inserted))
	if bp.Panic != nil {
		c.Add("parses_that_panicked(C01's business)", 1)
		return
	}
	sig := fmt.Sprintf("recovery|fam%d|burst|", obs.Fam(ver))
	if len(bp.Errors) == 0 {
		c.Violation(sig+"no-error", "malformed statements were inserted but no error was delivered", w)
		return
	}
	if bp.Root == nil {
		c.Violation(sig+"no-tree", fmt.Sprintf("no tree is returned for a file with %d benign malformed statements between well-formed ones", inserted), w)
		return
	}
	// the list under comparison is the one that begins with the marker statement zzfirst();
	list := func(root ast.Vertex) []ast.Vertex {
		var found []ast.Vertex
		obs.Walk(root, func(n, _ ast.Vertex, _ string, _ int) bool {
			for _, f := range obs.Fields(n) {
				if f.Name != "Stmts" || f.Kind != obs.FNodes || len(f.Nodes) == 0 {
					continue
				}
				if st, ok := f.Nodes[0].(*ast.StmtExpression); ok {
					if call, ok := st.Expr.(*ast.ExprFunctionCall); ok {
						if nm, ok := call.Function.(*ast.Name); ok && len(nm.Parts) == 1 {
							if np, ok := nm.Parts[0].(*ast.NamePart); ok && string(np.Value) == "zzfirst" {
								found = f.Nodes
							}
						}
					}
				}
			}
			return true
		})
		return found
	}
	cl, bl := list(cp.Root), list(bp.Root)
	c.Cover("burst-wrappers", wrapper)
	if cl == nil {
		core.Fail("C07 burst: marker statement not found in the clean tree (wrapper %s)", wrapper)
	}
	if bl == nil {
		c.Violation(sig+"list-lost|"+wrapper, fmt.Sprintf("the statement list (wrapper %s) that begins with the well-formed marker statement is not in the tree recovered from a file with %d malformed statements", wrapper, inserted), w)
		return
	}
	j := 0
	for i, st := range cl {
		want := obs.StructureCanon(st)
		for j < len(bl) && obs.StructureCanon(bl[j]) != want {
			j++
		}
		if j == len(bl) {
			c.Violation(sig+"following-lost|"+obs.Kind(st), fmt.Sprintf("well-formed statement #%d of %d (%s) is missing from the list recovered from a file with %d malformed statements (%d errors delivered, %d statements recovered)", i, len(cl), obs.Kind(st), inserted, len(bp.Errors), len(bl)), w)
			return
		}
		j++
	}
	c.Add("burst_statements_found_again", int64(len(cl)))
	if !checkProvenance(c, bp.Root, src, ver) {
		return
	}
	c.NonTrivial(src, []byte(ver))
}

// c07Truncate: the malformed part is a program cut off behind one of its tokens (a file truncated in the middle
// of any construct). Whether a tree is returned is the parser's choice; if one is returned together with the
// errors, the top-level statements that are complete in the remaining text and precede the statement that was
// cut must be the first statements of the returned root, identical to the clean parse (tokens, positions), and
// the tree must print as a sub-sequence of the source.
func c07Truncate(c *core.Ctx, idx int) {
	r := core.NewRand(c.P.Seed, "C07cut", idx)
	fam := 7
	if r.Chance(2, 5) {
		fam = 5
	}
	g := gen.NewG(r.Split("prog"), gen.Opts{Fam: fam, NoHTML: true, MaxDepth: r.Range(2, 4), MaxStmts: 6})
	root := g.Program()
	ver := progVersion(r, fam, false)
	if root.HasFlag(gen.FFlex73) {
		ver = "7.4"
	}
	toks := root.Tokens()
	clean := gen.Render(toks, gen.LayCanon, r, nil)
	cp := obs.Parse(clean, ver, true)
	if cp.Panic != nil || len(cp.Errors) > 0 || cp.Root == nil || len(toks) < 4 {
		c.Inconclusive("clean program not accepted (C03's business)")
		return
	}
	var top []ast.Vertex
	for _, f := range obs.Fields(cp.Root) {
		if f.Name == "Stmts" {
			top = f.Nodes
		}
	}
	for k, tries := 0, c.P.Pick(4, 12); k < tries; k++ {
		j := r.Range(2, len(toks)-1)
		cut := gen.Render(toks[:j], gen.LayCanon, r, nil)
		if len(cut) > len(clean) || string(clean[:len(cut)]) != string(cut) {
			core.Fail("C07: canonical rendering is not prefix-stable")
		}
		c.Inflight(cut, "C07 truncated "+ver)
		bp := obs.Parse(cut, ver, true)
		c.Add("truncation_cases", 1)
		if bp.Panic != nil {
			c.Add("parses_that_panicked(C01's business)", 1)
			continue
		}
		if len(bp.Errors) == 0 {
			c.Add("truncations_that_are_valid_programs", 1)
			continue
		}
		if bp.Root == nil {
			c.Add("truncations_without_tree", 1)
			continue
		}
		c.Add("truncations_with_tree", 1)
		// complete preceding statements: those that end inside the remaining text and are followed by another
		// top-level statement that starts inside it too (the last contained one may be what the cut tail extends)
		pre := 0
		for q, st := range top {
			_, e := nodeSpan(st)
			if e < 0 || e > len(cut) || q+1 >= len(top) {
				break
			}
			if s2, _ := nodeSpan(top[q+1]); s2 < 0 || s2 >= len(cut) {
				break
			}
			pre = q + 1
		}
		var got []ast.Vertex
		for _, f := range obs.Fields(bp.Root) {
			if f.Name == "Stmts" {
				got = f.Nodes
			}
		}
		w := core.W(cut, ver).With("cut_behind_token", fmt.Sprint(j)).With("complete_preceding_top_level_statements", fmt.Sprint(pre))
		sig := fmt.Sprintf("recovery|fam%d|truncated|", fam)
		if len(got) < pre {
			c.Violation(sig+"preceding-lost", fmt.Sprintf("%d complete top-level statements precede the statement that was cut off, the returned root has only %d statements", pre, len(got)), w)
			return
		}
		for q := 0; q < pre; q++ {
			a, b := obs.Fingerprint(top[q], false), obs.Fingerprint(got[q], false)
			if a != b {
				c.Violation(sig+"preceding-changed|"+obs.Kind(top[q]), fmt.Sprintf("top-level statement #%d before the cut differs from the clean parse: %s", q, obs.FirstDiff(a, b)), w)
				return
			}
		}
		c.Add("preceding_statements_compared", int64(pre))
		if !checkProvenance(c, bp.Root, cut, ver) {
			return
		}
	}
	c.NonTrivial(clean, []byte(ver), []byte("cut"))
}

func c07Hostile(c *core.Ctx, src []byte, ver string) {
	c.Inflight(src, "C07 parse "+ver)
	pr := obs.Parse(src, ver, true)
	if pr.Panic != nil || pr.Root == nil || len(pr.Errors) == 0 {
		return
	}
	if checkProvenance(c, pr.Root, src, ver) {
		c.NonTrivial(src, []byte(ver))
	}
}

func init() {
	core.Register(&core.Check{
		ID:   "C07",
		Rule: "cases = known-finding witnesses ++ alternately (a) a generated valid PHP-mode program with 4 (quick) / 12 (thorough) independent insertions of a benign malformed statement (17 shapes such as ') ;', '$x = ;', 'foo( ;') at a PRNG statement boundary of a PRNG statement list, compared with the clean parse, (a') 2..90 well-formed statement texts joined into one list (top level or function body) with a benign malformed statement behind a PRNG subset or all of them: every well-formed statement must be found again in order, (a'') a generated program cut off behind a PRNG token: if a tree is returned, the complete top-level statements before the cut statement are its first statements, identical to the clean parse, and (b) a hostile G3 input whose parse returns a tree together with errors, printed through the provenance writer; non-trivial = recovery program whose insertions were all compared / hostile tree printed; distinct by (clean text, version) / (input, version)",
		Assumptions: []string{
			"benign malformed statements cannot extend the preceding statement nor start a valid one and end in ';' — or, without a ';', are the last statement of a list closed by '}'",
			"printer glue = '<?php ', one blank, '?>'; every other chunk must alias the source buffer (token values are slices of it)",
			"class/interface/trait member lists have no error production and are not used as insertion lists",
		},
		Plan: func(p core.Params) int { return p.Pick(80000, 1500000) },
		Run: func(c *core.Ctx, idx int) {
			if idx%2 == 0 {
				c07Recovery(c, idx)
				return
			}
			if idx%8 == 3 {
				c07Burst(c, idx)
				return
			}
			if idx%8 == 5 {
				c07Truncate(c, idx)
				return
			}
			pc := genParseCase(c.P.Seed, "C07h", idx, 90)
			c07Hostile(c, pc.Src, pc.Ver)
		},
		RunWitness:    func(c *core.Ctx, w core.Witness) { c07Hostile(c, w.Src, w.Ver) },
		MinNonTrivial: 500,
	})
}
