#!/usr/bin/env python3
"""usage: intake.py <agent-out-dir (contains patch.diff, demo_test.go, notes.md)> <seed-name> <property>
Reads notes.md (package:, run:, flags:, needs:) as written by a seeding sub-agent and runs tools/confirmseed.sh."""
import os, re, subprocess, sys
d, name, prop = sys.argv[1:4]
notes = open(os.path.join(d, "notes.md")).read()
def field(k):
    m = re.search(r"^[ \t]*[-*]?[ \t]*`?" + k + r"`?[ \t]*:[ \t]*(.*)$", notes, re.M | re.I)
    return (m.group(1).strip().strip("`") if m else "")
pkg, rx, flags, needs = field("package"), field("run"), field("flags"), field("needs")
if flags.lower() in ("empty", "(empty)", "none", "<empty>", "-"):
    flags = ""
pkg = pkg.strip("/").removeprefix("./")
if not pkg or not rx:
    sys.exit("notes.md lacks package/run: " + notes[:300])
env = dict(os.environ, SEED_TESTFLAGS=flags)
sys.exit(subprocess.call(["/verif/tools/confirmseed.sh", d, name, prop, pkg, rx, needs], env=env))
