#!/usr/bin/env python3
"""Appends one record to /verif/known-findings.jsonl (run by hand, never by a check).

usage: addfinding.py <property> <id> known|fixed <signature-or-regex:...> <what> <src as python literal> <version> [commit] [k=v ...]
A signature starting with 're:' is stored as signature_regex.
"""
import sys, json, base64, ast, os
V = os.path.dirname(os.path.dirname(os.path.abspath(__file__)))
prop, fid, status, sig, what, src, ver = sys.argv[1:8]
rest = sys.argv[8:]
commit = ""
cfg = {}
for a in rest:
    if "=" in a:
        k, v = a.split("=", 1)
        cfg[k] = v
    else:
        commit = a
raw = ast.literal_eval(src) if src else None
if isinstance(raw, str):
    raw = raw.encode("latin-1")
rec = {"property": prop, "id": fid, "status": status}
if commit:
    rec["commit"] = commit
if sig.startswith("re:"):
    rec["signature"] = ""
    rec["signature_regex"] = sig[3:]
else:
    rec["signature"] = sig
rec["what"] = what
w = {}
if raw is not None:
    w["src_b64"] = base64.b64encode(raw).decode()
    w["src_text"] = json.dumps(raw.decode("latin-1"))
if ver:
    w["version"] = ver
if cfg:
    w["config"] = cfg
rec["witness"] = w
path = os.path.join(V, "known-findings.jsonl")
lines = []
if os.path.exists(path):
    lines = [l for l in open(path).read().split("\n") if l.strip()]
lines = [l for l in lines if json.loads(l).get("id") != fid or json.loads(l).get("property") != prop]
lines.append(json.dumps(rec))
open(path, "w").write("\n".join(lines) + "\n")
print("recorded", prop, fid, status)
