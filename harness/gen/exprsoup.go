package gen

import (
	"strconv"
	"strings"

	"verif/harness/core"
)

// String-first expression oracle (second, independent path for C03's precedence claim).
//
// A random *token string* of operands and operators is produced without any tree in mind
// and without parentheses; a small precedence-climbing reference parser written from the
// yacc semantics of PHP's documented precedence declarations (level, associativity,
// non-associativity; a prefix operator takes everything that binds tighter than itself;
// an assignment operator directly after a variable always starts an assignment whose
// right side extends as far as operators binding tighter than '=' reach; '?:' is left
// associative with an unrestricted middle) yields the expected tree, or "syntax error"
// for a chain of non-associative operators. This exercises exactly the inputs the
// tree-first generator avoids by parenthesising.

type soupTok struct {
	kind string // "var", "num", "bin", "pre", "post", "assign", "?", ":", "instanceof", "name"
	text string
}

type soupParser struct {
	toks []soupTok
	pos  int
	err  bool
}

var soupBin = map[string]struct {
	kind  string
	prec  int
	assoc byte
}{}

func init() {
	for _, b := range binops {
		soupBin[b.op] = struct {
			kind  string
			prec  int
			assoc byte
		}{b.kind, b.prec, b.assoc}
	}
}

var soupPre = map[string]struct {
	kind string
	prec int
	role string
}{
	"!": {"ExprBooleanNot", 23, "Expr"}, "~": {"ExprBitwiseNot", 25, "Expr"}, "-": {"ExprUnaryMinus", 25, "Expr"}, "+": {"ExprUnaryPlus", 25, "Expr"}, "@": {"ExprErrorSuppress", 25, "Expr"},
	"(int)": {"ExprCastInt", 25, "Expr"}, "(string)": {"ExprCastString", 25, "Expr"}, "(array)": {"ExprCastArray", 25, "Expr"}, "(bool)": {"ExprCastBool", 25, "Expr"},
	"print": {"ExprPrint", 6, "Expr"}, "include": {"ExprInclude", 1, "Expr"}, "require_once": {"ExprRequireOnce", 1, "Expr"}, "clone": {"ExprClone", 28, "Expr"},
}

var soupAssign = map[string]string{}

func init() {
	for _, a := range assignops {
		soupAssign[a.op] = a.kind
	}
}

func (p *soupParser) peek() *soupTok {
	if p.pos < len(p.toks) {
		return &p.toks[p.pos]
	}
	return nil
}

func leafNode(kind, val string) *Node {
	return &Node{Kind: kind, Val: val, HasVal: true, Prec: 100}
}

func soupVar(name string) *Node {
	return &Node{Kind: "ExprVariable", Kids: []Kid{one("Name", leafNode("Identifier", name))}, Prec: 100}
}

// parseExpr parses with minimum binding power min (operators with precedence < min, or == min
// when reduceEq, end the expression). lastNonassoc carries the level of a non-associative
// operator whose operand is being extended (a second one on that level is a syntax error).
func (p *soupParser) parseExpr(min int, reduceEq bool) *Node {
	left := p.parsePrefix()
	if left == nil {
		p.err = true
		return nil
	}
	return p.parseInfix(left, min, reduceEq)
}

func (p *soupParser) parseInfix(left *Node, min int, reduceEq bool) *Node {
	for !p.err {
		t := p.peek()
		if t == nil {
			return left
		}
		switch t.kind {
		case "bin":
			b := soupBin[t.text]
			if b.prec < min || (b.prec == min && reduceEq) {
				return left
			}
			// a non-associative operator directly applied to a result of its own level is an error
			if b.assoc == 'n' && left.Prec == b.prec && left.Kind != "ExprBrackets" {
				p.err = true
				return nil
			}
			p.pos++
			var right *Node
			switch b.assoc {
			case 'l':
				right = p.parseExpr(b.prec, true)
			case 'r':
				right = p.parseExpr(b.prec, false)
			default:
				right = p.parseExpr(b.prec, true)
				if nt := p.peek(); right != nil && nt != nil && nt.kind == "bin" && soupBin[nt.text].prec == b.prec {
					p.err = true
					return nil
				}
			}
			if right == nil {
				p.err = true
				return nil
			}
			left = &Node{Kind: b.kind, Kids: []Kid{one("Left", left), one("Right", right)}, Prec: b.prec}
		case "instanceof":
			if precInst < min || (precInst == min && reduceEq) {
				return left
			}
			if left.Prec == precInst {
				p.err = true
				return nil
			}
			p.pos++
			c := p.peek()
			if c == nil || (c.kind != "name" && c.kind != "var") {
				p.err = true
				return nil
			}
			p.pos++
			var cls *Node
			if c.kind == "var" {
				cls = soupVar(c.text)
			} else {
				cls = &Node{Kind: "Name", Kids: []Kid{list("Parts", []*Node{leafNode("NamePart", c.text)})}, Prec: 100}
			}
			if nt := p.peek(); nt != nil && nt.kind == "instanceof" {
				p.err = true
				return nil
			}
			left = &Node{Kind: "ExprInstanceOf", Kids: []Kid{one("Expr", left), one("Class", cls)}, Prec: precInst}
		case "?":
			if precTernary < min || (precTernary == min && reduceEq) {
				return left
			}
			p.pos++
			var mid *Node
			if nt := p.peek(); nt != nil && nt.kind == ":" {
				p.pos++
			} else {
				mid = p.parseExpr(0, false)
				if nt := p.peek(); mid == nil || nt == nil || nt.kind != ":" {
					p.err = true
					return nil
				}
				p.pos++
			}
			f := p.parseExpr(precTernary, true)
			if f == nil {
				p.err = true
				return nil
			}
			kids := []Kid{one("Cond", left)}
			if mid != nil {
				kids = append(kids, one("IfTrue", mid))
			}
			kids = append(kids, one("IfFalse", f))
			left = &Node{Kind: "ExprTernary", Kids: kids, Prec: precTernary}
		case "post":
			if left.Kind != "ExprVariable" {
				p.err = true
				return nil
			}
			p.pos++
			k := "ExprPostInc"
			if t.text == "--" {
				k = "ExprPostDec"
			}
			left = &Node{Kind: k, Kids: []Kid{one("Var", left)}, Prec: 100}
		default:
			return left
		}
	}
	return nil
}

func (p *soupParser) parsePrefix() *Node {
	t := p.peek()
	if t == nil {
		return nil
	}
	switch t.kind {
	case "var":
		p.pos++
		v := soupVar(t.text)
		// an assignment operator directly after a variable always starts an assignment
		if nt := p.peek(); nt != nil && nt.kind == "assign" {
			p.pos++
			rhs := p.parseExpr(precAssign, false)
			if rhs == nil {
				p.err = true
				return nil
			}
			return &Node{Kind: soupAssign[nt.text], Kids: []Kid{one("Var", v), one("Expr", rhs)}, Prec: precAssign}
		}
		// a postfix ++/-- belongs to the variable whatever precedes it
		if nt := p.peek(); nt != nil && nt.kind == "post" {
			p.pos++
			k := "ExprPostInc"
			if nt.text == "--" {
				k = "ExprPostDec"
			}
			return &Node{Kind: k, Kids: []Kid{one("Var", v)}, Prec: 100}
		}
		return v
	case "num":
		p.pos++
		return leafNode("ScalarLnumber", t.text)
	case "pre":
		p.pos++
		if t.text == "++" || t.text == "--" {
			nt := p.peek()
			if nt == nil || nt.kind != "var" {
				p.err = true
				return nil
			}
			p.pos++
			k := "ExprPreInc"
			if t.text == "--" {
				k = "ExprPreDec"
			}
			n := &Node{Kind: k, Kids: []Kid{one("Var", soupVar(nt.text))}, Prec: precUnary}
			if at := p.peek(); at != nil && (at.kind == "assign" || at.kind == "post") {
				p.err = true
				return nil
			}
			return n
		}
		pr := soupPre[t.text]
		var operand *Node
		if t.text == "clone" {
			// clone binds tighter than every operator: its operand is the next primary
			operand = p.parsePrefix()
		} else {
			operand = p.parseExpr(pr.prec, false)
		}
		if operand == nil {
			p.err = true
			return nil
		}
		return &Node{Kind: pr.kind, Kids: []Kid{one(pr.role, operand)}, Prec: pr.prec}
	}
	return nil
}

// ExprSoup returns a random unparenthesised expression statement "<?php EXPR;" with the tree the
// reference parser derives, or ok=false when the reference declares it a syntax error.
func ExprSoup(r *core.Rand, fam int) (src string, expected *Node, valid bool, ops []string) {
	var toks []soupTok
	nv := 0
	operand := func() {
		// prefix operators
		for r.Chance(1, 3) {
			pool := []string{"!", "~", "-", "+", "@", "(int)", "(string)", "(array)", "(bool)", "print", "clone", "++", "--", "include", "require_once"}
			op := pool[r.Intn(len(pool))]
			toks = append(toks, soupTok{"pre", op})
			ops = append(ops, "pre:"+op)
			if op == "++" || op == "--" {
				break
			}
		}
		if len(toks) > 0 && toks[len(toks)-1].kind == "pre" && (toks[len(toks)-1].text == "++" || toks[len(toks)-1].text == "--") {
			nv++
			toks = append(toks, soupTok{"var", "$v" + strconv.Itoa(nv)})
			return
		}
		if r.Chance(1, 5) {
			toks = append(toks, soupTok{"num", strconv.Itoa(r.Intn(100))})
			return
		}
		nv++
		toks = append(toks, soupTok{"var", "$v" + strconv.Itoa(nv)})
		if r.Chance(1, 6) {
			toks = append(toks, soupTok{"assign", assignops[r.Intn(len(assignops)-1)].op}) // (not ??=, PHP 7.4 only)
			ops = append(ops, "assign")
			return
		}
		if r.Chance(1, 10) {
			toks = append(toks, soupTok{"post", r.Pick("++", "--")})
		}
	}
	n := r.Range(2, 6)
	openTernary := 0
	for i := 0; i < n; i++ {
		operand()
		for len(toks) > 0 && toks[len(toks)-1].kind == "assign" {
			operand()
		}
		if i == n-1 {
			break
		}
		switch k := r.Intn(12); {
		case k == 0:
			toks = append(toks, soupTok{"?", "?"})
			ops = append(ops, "?")
			if r.Chance(1, 3) {
				toks = append(toks, soupTok{":", ":"})
			} else {
				openTernary++
			}
		case k == 1 && openTernary > 0:
			toks = append(toks, soupTok{":", ":"})
			openTernary--
		case k == 2:
			toks = append(toks, soupTok{"instanceof", "instanceof"})
			ops = append(ops, "instanceof")
			if r.Bool() {
				toks = append(toks, soupTok{"name", "Cls" + strconv.Itoa(i)})
			} else {
				nv++
				toks = append(toks, soupTok{"var", "$v" + strconv.Itoa(nv)})
			}
			if i < n-2 {
				b := binops[r.Intn(len(binops))]
				for b.php7 && fam == 5 {
					b = binops[r.Intn(len(binops))]
				}
				toks = append(toks, soupTok{"bin", b.op})
				ops = append(ops, b.op)
			} else {
				i = n
			}
		default:
			b := binops[r.Intn(len(binops))]
			for b.php7 && fam == 5 {
				b = binops[r.Intn(len(binops))]
			}
			toks = append(toks, soupTok{"bin", b.op})
			ops = append(ops, b.op)
		}
	}
	if len(toks) > 0 {
		switch toks[len(toks)-1].kind {
		case "bin", "?", ":", "assign", "pre", "instanceof":
			nv++
			toks = append(toks, soupTok{"var", "$v" + strconv.Itoa(nv)})
		}
	}
	for ; openTernary > 0; openTernary-- {
		nv++
		toks = append(toks, soupTok{":", ":"}, soupTok{"var", "$v" + strconv.Itoa(nv)})
	}
	var sb strings.Builder
	sb.WriteString("<?php ")
	for _, t := range toks {
		sb.WriteString(t.text)
		sb.WriteByte(' ')
	}
	sb.WriteString(";")
	p := &soupParser{toks: toks}
	e := p.parseExpr(0, false)
	if p.err || e == nil || p.pos != len(toks) {
		return sb.String(), nil, false, ops
	}
	stmt := &Node{Kind: "StmtExpression", Kids: []Kid{one("Expr", e)}}
	root := &Node{Kind: "Root", Kids: []Kid{list("Stmts", []*Node{stmt})}}
	return sb.String(), root, true, ops
}
