package core

import "hash/fnv"

// Rand is a small splittable PRNG (splitmix64). All random choices of the
// harness derive from (VERIF_SEED, property, generator, case index) through it,
// so a case index replays the same case.
type Rand struct{ s uint64 }

func mix(z uint64) uint64 {
	z += 0x9e3779b97f4a7c15
	z = (z ^ (z >> 30)) * 0xbf58476d1ce4e5b9
	z = (z ^ (z >> 27)) * 0x94d049bb133111eb
	return z ^ (z >> 31)
}

// NewRand derives a generator from a seed and a path of labels.
func NewRand(seed int64, labels ...interface{}) *Rand {
	s := mix(uint64(seed) ^ 0x5bd1e995)
	for _, l := range labels {
		switch v := l.(type) {
		case string:
			h := fnv.New64a()
			h.Write([]byte(v))
			s = mix(s ^ h.Sum64())
		case int:
			s = mix(s ^ uint64(v)*0x9e3779b97f4a7c15)
		case int64:
			s = mix(s ^ uint64(v)*0x9e3779b97f4a7c15)
		case uint64:
			s = mix(s ^ v)
		default:
			panic("core.NewRand: unsupported label type")
		}
	}
	return &Rand{s}
}

func (r *Rand) Uint64() uint64 {
	r.s += 0x9e3779b97f4a7c15
	z := r.s
	z = (z ^ (z >> 30)) * 0xbf58476d1ce4e5b9
	z = (z ^ (z >> 27)) * 0x94d049bb133111eb
	return z ^ (z >> 31)
}

// Intn returns a value in [0,n). n must be > 0.
func (r *Rand) Intn(n int) int {
	if n <= 0 {
		panic("core.Rand.Intn: n <= 0")
	}
	return int(r.Uint64() % uint64(n))
}

// Range returns a value in [lo,hi].
func (r *Rand) Range(lo, hi int) int { return lo + r.Intn(hi-lo+1) }

// Chance is true with probability num/den.
func (r *Rand) Chance(num, den int) bool { return r.Intn(den) < num }

func (r *Rand) Bool() bool { return r.Uint64()&1 == 1 }

// Pick returns one of the strings.
func (r *Rand) Pick(ss ...string) string { return ss[r.Intn(len(ss))] }

// Split derives an independent generator.
func (r *Rand) Split(label string) *Rand {
	return NewRand(int64(r.Uint64()), label)
}

// Perm returns a permutation of 0..n-1.
func (r *Rand) Perm(n int) []int {
	p := make([]int, n)
	for i := range p {
		p[i] = i
	}
	for i := n - 1; i > 0; i-- {
		j := r.Intn(i + 1)
		p[i], p[j] = p[j], p[i]
	}
	return p
}

// Hash64 hashes bytes (FNV-1a, then mixed).
func Hash64(parts ...[]byte) uint64 {
	h := fnv.New64a()
	for _, p := range parts {
		h.Write(p)
		h.Write([]byte{0xff, 0x00})
	}
	return mix(h.Sum64())
}
