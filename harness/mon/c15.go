package mon

import (
	"bytes"
	"fmt"
	"io"
	"reflect"
	"regexp"
	"strings"

	"verif/harness/core"
	"verif/harness/gen"
	"verif/harness/obs"

	"github.com/z7zmey/php-parser/pkg/ast"
	"github.com/z7zmey/php-parser/pkg/token"
	"github.com/z7zmey/php-parser/pkg/visitor/printer"
)

// C15 — the printer emits every token and child of every node kind once, in order.

func printTo(root ast.Vertex, w io.Writer) *obs.Panic {
	return obs.Try(func() { root.Accept(printer.NewPrinter(w)) })
}

func printString(root ast.Vertex) (string, *obs.Panic) {
	var b bytes.Buffer
	p := printTo(root, &b)
	return b.String(), p
}

// sepDue stands in the expected sequence for "a default separator lexeme must be written here"
const sepDue = "\x00SEP"

var markerRe = regexp.MustCompile("\x01([A-Z])([0-9]+)[^\x02]*\x02")

// expectedMarkers lists, in source order, the marker values the printer must emit
// for a synthetic tree: for each present token its free-floating markers then its
// own marker; a []byte Value is the default of the token slot right before it and
// is expected exactly when that token is absent.
func expectedMarkers(n ast.Vertex, out *[]string) {
	if obs.IsNil(n) {
		return
	}
	tok := func(t *token.Token) {
		if t == nil {
			return
		}
		for _, ff := range t.FreeFloating {
			*out = append(*out, string(ff.Value))
		}
		*out = append(*out, string(t.Value))
	}
	fs := obs.Fields(n)
	for i := 0; i < len(fs); i++ {
		f := fs[i]
		switch f.Kind {
		case obs.FTok:
			tok(f.Tok)
			if f.Tok == nil && i+1 < len(fs) && fs[i+1].Kind == obs.FBytes && len(fs[i+1].Bytes) > 0 {
				*out = append(*out, string(fs[i+1].Bytes))
			}
		case obs.FNode:
			expectedMarkers(f.Node, out)
		case obs.FNodes:
			var seps []*token.Token
			hasSeps := i+1 < len(fs) && fs[i+1].Kind == obs.FToks
			if hasSeps {
				seps = fs[i+1].Toks
			}
			for k, c := range f.Nodes {
				expectedMarkers(c, out)
				if k < len(seps) {
					tok(seps[k])
				} else if hasSeps && k < len(f.Nodes)-1 {
					*out = append(*out, sepDue) // a default separator is due here
				}
			}
			if hasSeps {
				i++
			}
		}
	}
}

// glue lexemes the printer may write on its own: PHP keywords and punctuation
var glueWords = func() map[string]bool {
	m := map[string]bool{}
	for _, w := range strings.Fields(`php abstract array as break callable case catch class clone const continue declare default die do echo else elseif empty enddeclare endfor endforeach endif endswitch endwhile eval exit extends final finally fn for foreach function global goto if implements include include_once instanceof insteadof interface isset list namespace new print private protected public require require_once return static switch throw trait try unset use var while yield from and or xor __halt_compiler bool boolean int integer float double real string binary object unset eot`) {
		m[w] = true
	}
	return m
}()

var glueTok = regexp.MustCompile(`[A-Za-z_]+|<\?php|<\?=|\?>|\s+|.`)

func glueOK(s string) (string, bool) {
	for _, t := range glueTok.FindAllString(s, -1) {
		c := t[0]
		switch {
		case c == ' ' || c == '\n' || c == '\t' || c == '\r':
		case (c >= 'a' && c <= 'z') || (c >= 'A' && c <= 'Z') || c == '_':
			if !glueWords[strings.ToLower(t)] {
				return t, false
			}
		case t == "<?php" || t == "<?=" || t == "?>":
		case strings.ContainsRune("()[]{};:,.=&|?$@!~+-*/%<>^\\`\"'#", rune(c)):
		default:
			return t, false
		}
	}
	return "", true
}

func c15Synthetic(c *core.Ctx, sc synthCase, idx int) {
	zero := zeroOf(sc.Kind)
	s := &gen.Synth{R: core.NewRand(c.P.Seed, "C15", idx), Nasty: false, Share: idx%4 == 3}
	n := s.Build(zero, sc.Present)
	w := core.Witness{Cfg: map[string]string{"kind": sc.Kind, "present": presentString(zero, sc.Present)}}
	if s.Shared > 0 {
		// a tree built by re-using a node ("$a + $a" with one variable node): it is printed wherever it stands
		w = w.With("shared", "one node object stands twice in a list")
		c.Add("synthetic_nodes_with_a_repeated_list_element", 1)
	}
	out, p := printString(n)
	if p != nil {
		c.Violation(p.Sig, "printer panicked: "+p.Msg, w)
		return
	}
	var want []string
	expectedMarkers(n, &want)
	gotIdx := markerRe.FindAllStringIndex(out, -1)
	// resolve sepDue entries: the gap between the neighbouring markers must hold a non-blank lexeme
	{
		var w2 []string
		gi := 0
		for _, x := range want {
			if x != sepDue {
				w2 = append(w2, x)
				gi++
				continue
			}
			if gi > 0 && gi < len(gotIdx) {
				gap := out[gotIdx[gi-1][1]:gotIdx[gi][0]]
				if strings.TrimSpace(gap) == "" {
					c.Violation("print|"+sc.Kind+"|default-separator-missing", fmt.Sprintf("no separator between list items %q and %q; output %q", out[gotIdx[gi-1][0]:gotIdx[gi-1][1]], out[gotIdx[gi][0]:gotIdx[gi][1]], out), w)
					return
				}
				c.Add("default_separators_checked", 1)
			}
		}
		want = w2
	}
	got := markerRe.FindAllString(out, -1)
	c.Add("markers_expected", int64(len(want)))
	c.Cover("synthetic_kinds", sc.Kind)
	owner := func(m string) string { return c15Owner(n, m) }
	for i := 0; i < len(want) || i < len(got); i++ {
		switch {
		case i >= len(got):
			c.Violation("print|"+owner(want[i])+"|missing", fmt.Sprintf("marker %q (%s) is present in the node but not in the output %q", want[i], owner(want[i]), out), w)
			return
		case i >= len(want):
			c.Violation("print|"+owner(got[i])+"|duplicated-or-extra", fmt.Sprintf("output has extra marker %q (%s): %q", got[i], owner(got[i]), out), w)
			return
		case got[i] != want[i]:
			cls := "misordered"
			inWant := false
			for _, x := range want {
				if x == got[i] {
					inWant = true
				}
			}
			cnt := strings.Count(out, got[i])
			if cnt > 1 {
				cls = "duplicated"
			} else if !inWant {
				cls = "unexpected"
			} else if !strings.Contains(out, want[i]) {
				cls = "missing"
				c.Violation("print|"+owner(want[i])+"|"+cls, fmt.Sprintf("marker %q (%s) missing from output %q", want[i], owner(want[i]), out), w)
				return
			}
			c.Violation("print|"+owner(got[i])+"|"+cls, fmt.Sprintf("position %d: output has %q (%s) where %q (%s) is due; output %q", i, got[i], owner(got[i]), want[i], owner(want[i]), out), w)
			return
		}
	}
	// everything else must be PHP lexemes / glue
	rest := markerRe.ReplaceAllString(out, " ")
	if bad, ok := glueOK(rest); !ok {
		c.Violation("print|"+sc.Kind+"|foreign-text", fmt.Sprintf("text %q between markers is neither a marker nor a PHP lexeme; output %q", bad, out), w)
		return
	}
	if len(want) > 0 {
		c.NonTrivial([]byte(sc.Kind), []byte(w.Cfg["present"]))
	}
	if c.WantSample() && len(want) > 8 {
		c.Sample(map[string]interface{}{"kind": sc.Kind, "present": w.Cfg["present"], "output": out})
	}
}

// c15Owner names the slot that holds marker m: "<Kind>.<Slot>".
func c15Owner(root ast.Vertex, m string) string {
	res := "?"
	for _, tr := range obs.Tokens(root) {
		if string(tr.Tok.Value) == m {
			res = obs.Kind(tr.Owner) + "." + tr.Slot
			if tr.FF {
				res += ".FreeFloating"
			}
			return res
		}
	}
	obs.Walk(root, func(n, _ ast.Vertex, _ string, _ int) bool {
		for _, f := range obs.Fields(n) {
			if f.Kind == obs.FBytes && string(f.Bytes) == m {
				res = obs.Kind(n) + "." + f.Name
			}
		}
		return true
	})
	return res
}

// ---------------------------------------------------------------------------------------------
// parsed trees: replace one subtree, everything outside its span must be printed as before

type slotRef struct {
	parent ast.Vertex
	field  string
	index  int // -1 for a single child
	node   ast.Vertex
}

func exprSlots(root ast.Vertex) []slotRef {
	var out []slotRef
	obs.Walk(root, func(n, _ ast.Vertex, _ string, _ int) bool {
		for _, f := range obs.Fields(n) {
			switch f.Kind {
			case obs.FNode:
				if f.Node != nil {
					out = append(out, slotRef{n, f.Name, -1, f.Node})
				}
			case obs.FNodes:
				for i, k := range f.Nodes {
					if !obs.IsNil(k) {
						out = append(out, slotRef{n, f.Name, i, k})
					}
				}
			}
		}
		return true
	})
	return out
}

func setSlot(s slotRef, v ast.Vertex) {
	f := reflect.ValueOf(s.parent).Elem().FieldByName(s.field)
	if s.index < 0 {
		f.Set(reflect.ValueOf(v))
	} else {
		f.Index(s.index).Set(reflect.ValueOf(v))
	}
}

func containsKind(n ast.Vertex, kinds ...string) bool {
	found := false
	obs.Walk(n, func(x, _ ast.Vertex, _ string, _ int) bool {
		for _, k := range kinds {
			if obs.Kind(x) == k {
				found = true
			}
		}
		return !found
	})
	return found
}

func c15Replace(c *core.Ctx, src []byte, ver string, r *core.Rand) {
	c.Inflight(src, "C15 replace "+ver)
	pr := obs.Parse(src, ver, true)
	if pr.Panic != nil || pr.Root == nil || len(pr.Errors) > 0 {
		return
	}
	w := core.W(src, ver)
	before := obs.NewProv(src)
	if p := printTo(pr.Root, before); p != nil {
		c.Violation(p.Sig, "printer panicked: "+p.Msg, w)
		return
	}
	slots := exprSlots(pr.Root)
	if len(slots) == 0 {
		return
	}
	// candidates: subtrees in PHP mode whose first and last token are ordinary code tokens
	var cand []slotRef
	for _, s := range slots {
		k := obs.Kind(s.node)
		if !(strings.HasPrefix(k, "Expr") || strings.HasPrefix(k, "Scalar") || strings.HasPrefix(k, "Name") || k == "Identifier" || k == "Argument" || k == "Parameter") {
			continue
		}
		toks := obs.SourceOrderTokens(s.node)
		if len(toks) == 0 {
			continue
		}
		cand = append(cand, s)
	}
	if len(cand) == 0 {
		return
	}
	s := cand[r.Intn(len(cand))]
	toks := obs.SourceOrderTokens(s.node)
	first, last := toks[0].Tok, toks[len(toks)-1].Tok
	// chunk range of the subtree in the original output: by identity of the token value memory
	lo, hi := -1, -1
	for i, ch := range before.Chunks {
		if len(ch.Data) == 0 {
			continue
		}
		if lo < 0 && len(first.Value) > 0 && &ch.Data[0] == &first.Value[0] {
			lo = i
		}
		if len(last.Value) > 0 && &ch.Data[0] == &last.Value[0] {
			hi = i + 1
		}
	}
	ownsOpenTag := false
	for _, tr := range toks {
		if tr.Tok.ID == token.T_OPEN_TAG {
			ownsOpenTag = true
		}
		if !tr.FF {
			break
		}
	}
	if lo == 0 || ownsOpenTag || first.ID == token.T_ECHO && bytes.HasPrefix(first.Value, []byte("<?")) {
		// the subtree owns the very first chunk (open tag / shebang as free-floating text of its
		// first token): replacing it legitimately makes the printer supply its own "<?php "
		c.Add("replacements_skipped_subtree_owns_open_tag", 1)
		return
	}
	if lo < 0 || hi < 0 || hi <= lo {
		c.Inconclusive("replaced subtree's token chunks not located in the original output")
		return
	}
	marker := gen.Mark("R", 1)
	setSlot(s, &ast.Identifier{IdentifierTkn: &token.Token{ID: token.T_STRING, Value: marker}})
	after, p := printString(pr.Root)
	setSlot(s, s.node)
	if p != nil {
		c.Violation(p.Sig, "printer panicked after replacing a subtree: "+p.Msg, w)
		return
	}
	join := func(chs []obs.Chunk) string {
		var b strings.Builder
		for _, ch := range chs {
			b.Write(ch.Data)
		}
		return b.String()
	}
	pre, post := join(before.Chunks[:lo]), join(before.Chunks[hi:])
	// one separating space may appear or disappear at either boundary
	okv := false
	for _, a := range []string{pre, strings.TrimSuffix(pre, " "), pre + " "} {
		for _, b := range []string{post, strings.TrimPrefix(post, " "), " " + post} {
			if after == a+string(marker)+b {
				okv = true
			}
		}
	}
	c.Add("subtree_replacements", 1)
	c.Cover("replaced_kinds", obs.Kind(s.node))
	if !okv {
		c.Violation("print|replace|"+obs.Kind(s.parent)+"."+s.field+"|output-outside-subtree-changed",
			fmt.Sprintf("replacing %s.%s (%s, source %q) changed output outside the subtree: %s", obs.Kind(s.parent), s.field, obs.Kind(s.node), join(before.Chunks[lo:hi]), obs.FirstDiff(pre+string(marker)+post, after)), w)
		return
	}
	// second replacement: a token-less word (an Identifier that only has a Value, as hand-written code
	// builds it). The word must come out whole: with a blank wherever its neighbour would fuse with it.
	word := "zqword7"
	setSlot(s, &ast.Identifier{Value: []byte(word)})
	after2, p2 := printString(pr.Root)
	setSlot(s, s.node)
	if p2 != nil {
		c.Violation(p2.Sig, "printer panicked after replacing a subtree by a token-less identifier: "+p2.Msg, w)
		return
	}
	identCh := func(b byte) bool {
		return b == '_' || b >= 0x80 || (b >= '0' && b <= '9') || (b >= 'a' && b <= 'z') || (b >= 'A' && b <= 'Z')
	}
	ok2 := false
	for _, a := range []string{pre, strings.TrimSuffix(pre, " "), pre + " "} {
		for _, b := range []string{post, strings.TrimPrefix(post, " "), " " + post} {
			if after2 != a+word+b {
				continue
			}
			fusedLeft := len(a) > 0 && identCh(a[len(a)-1])
			fusedRight := len(b) > 0 && identCh(b[0])
			if !fusedLeft && !fusedRight {
				ok2 = true
			}
		}
	}
	c.Add("token_less_word_replacements", 1)
	if !ok2 {
		c.Violation("print|replace-word|"+obs.Kind(s.parent)+"."+s.field+"|word-fused-or-surroundings-changed",
			fmt.Sprintf("replacing %s.%s (%s, source %q) by a token-less identifier %q: the word is fused with a neighbour or the output outside it changed: %s", obs.Kind(s.parent), s.field, obs.Kind(s.node), join(before.Chunks[lo:hi]), word, obs.FirstDiff(pre+" "+word+" "+post, after2)), w)
		return
	}
	// third edit: the subtree is wrapped into a token-less node (print E): the default lexeme is inserted
	// between two source tokens that may have touched in the source, and must not fuse with either
	if k := obs.Kind(s.node); strings.HasPrefix(k, "Expr") || strings.HasPrefix(k, "Scalar") {
		sub := join(before.Chunks[lo:hi])
		setSlot(s, &ast.ExprPrint{Expr: s.node})
		after3, p3 := printString(pr.Root)
		setSlot(s, s.node)
		if p3 != nil {
			c.Violation(p3.Sig, "printer panicked after wrapping a subtree: "+p3.Msg, w)
			return
		}
		ok3 := false
		for _, a := range []string{pre, strings.TrimSuffix(pre, " "), pre + " "} {
			for _, x := range []string{"", " "} {
				for _, b := range []string{post, strings.TrimPrefix(post, " "), " " + post} {
					if after3 != a+"print"+x+sub+b {
						continue
					}
					fusedLeft := len(a) > 0 && identCh(a[len(a)-1])
					fusedRight := x == "" && len(sub) > 0 && identCh(sub[0])
					if !fusedLeft && !fusedRight {
						ok3 = true
					}
				}
			}
		}
		c.Add("token_less_wrapper_insertions", 1)
		if !ok3 {
			c.Violation("print|wrap-print|"+obs.Kind(s.parent)+"."+s.field+"|lexeme-fused-or-surroundings-changed",
				fmt.Sprintf("wrapping %s.%s (%s, source %q) into a token-less print node: its default lexeme is fused with a neighbour or other output changed: %s", obs.Kind(s.parent), s.field, obs.Kind(s.node), sub, obs.FirstDiff(pre+"print "+sub+post, after3)), w)
			return
		}
	}
	c.NonTrivial(src, []byte(ver), []byte(fmt.Sprint(lo, hi)))
	if c.WantSample() && len(src) < 200 {
		c.Sample(map[string]interface{}{"source": string(src), "replaced": obs.Kind(s.parent) + "." + s.field, "output_after": after})
	}
}

// c15TokenEdit: a token (or free-floating token) of a parsed tree gets a new Value — same length or not —
// while its position stays what it was. The printer must print the value that is in the tree: the output is
// the original output with exactly that chunk replaced (a separating blank at its boundary is allowed).
func c15TokenEdit(c *core.Ctx, src []byte, ver string, r *core.Rand) {
	pr := obs.Parse(src, ver, true)
	if pr.Panic != nil || pr.Root == nil || len(pr.Errors) > 0 {
		return
	}
	w := core.W(src, ver)
	if out, p := printString(pr.Root); p != nil || out != string(src) {
		return // the unedited tree does not print as its source: C02's business (known findings live there)
	}
	toks := obs.SourceOrderTokens(pr.Root)
	var cand []obs.TokRef
	for _, tr := range toks {
		v, ps := tr.Tok.Value, tr.Tok.Position
		if len(v) == 0 || ps == nil || ps.StartPos < 0 || ps.EndPos > len(src) || ps.EndPos-ps.StartPos != len(v) || string(src[ps.StartPos:ps.EndPos]) != string(v) {
			continue
		}
		if tr.Tok.ID != token.T_OPEN_TAG && tr.Tok.ID != token.T_INLINE_HTML && !bytes.Contains(v, []byte("?>")) && !bytes.Contains(v, []byte("<?")) && !bytes.HasPrefix(v, []byte("#!")) {
			cand = append(cand, tr)
		}
	}
	if len(cand) == 0 {
		return
	}
	for try := 0; try < 3; try++ {
		tr := cand[r.Intn(len(cand))]
		old := tr.Tok.Value
		var nv []byte
		mode := "same-length"
		if r.Bool() {
			// same length, first and last byte kept (the neighbours keep touching what they touched)
			nv = append([]byte(nil), old...)
			k := len(nv) / 2
			switch b := nv[k]; {
			case b == 'q':
				nv[k] = 'z'
			case b >= '0' && b <= '9':
				nv[k] = '0' + (b-'0'+1)%10
			case b == '+':
				nv[k] = '-'
			case b == ' ' || b == '\t' || b == '\n' || b == '\r':
				nv[k] = map[byte]byte{' ': '\t', '\t': ' ', '\n': ' ', '\r': ' '}[b]
			default:
				if len(nv) == 1 {
					nv[k] = '+'
				} else {
					nv[k] = 'q'
				}
			}
		} else {
			mode = "other-length"
			nv = append(append(append([]byte(nil), old[:1]...), []byte("qq7")...), old[len(old)-1:]...)
		}
		if bytes.Equal(nv, old) {
			continue
		}
		tr.Tok.Value = nv
		after, p := printString(pr.Root)
		tr.Tok.Value = old
		if p != nil {
			c.Violation(p.Sig, "printer panicked after a token value was edited: "+p.Msg, w)
			return
		}
		pre, post := string(src[:tr.Tok.Position.StartPos]), string(src[tr.Tok.Position.EndPos:])
		ok := false
		for _, a := range []string{pre, pre + " "} {
			for _, b := range []string{post, " " + post} {
				if after == a+string(nv)+b {
					ok = true
				}
			}
		}
		slot := obs.Kind(tr.Owner) + "." + tr.Slot
		if tr.FF {
			slot += ".FreeFloating"
		}
		c.Add("token_value_edits", 1)
		c.Cover("token_value_edit_modes", mode)
		if !ok {
			c.Violation("print|token-edit|"+mode+"|stale-or-misplaced-text", fmt.Sprintf("the value of %s was changed from %q to %q (position untouched); the printer does not print the source with exactly that text replaced: %s", slot, old, nv, obs.FirstDiff(pre+string(nv)+post, after)), w.With("edited_slot", slot))
			return
		}
	}
}

// c15StmtEdit: one whole statement of a statement list is replaced by a token-less statement. What the printer
// writes before and after that statement must stay what it was; if the replaced statement carried the open tag
// that follows inline HTML (also inline HTML nested in a block), the printer has to reopen PHP mode itself,
// exactly once and in place.
func c15StmtEdit(c *core.Ctx, src []byte, ver string, r *core.Rand) {
	pr := obs.Parse(src, ver, true)
	if pr.Panic != nil || pr.Root == nil || len(pr.Errors) > 0 {
		return
	}
	w := core.W(src, ver)
	if out, p := printString(pr.Root); p != nil || out != string(src) {
		return // C02's business
	}
	var cand []slotRef
	for _, s := range exprSlots(pr.Root) {
		if s.field != "Stmts" || s.index < 0 {
			continue
		}
		k := obs.Kind(s.node)
		if k == "StmtInlineHtml" || k == "StmtHaltCompiler" || k == "StmtNop" || !strings.HasPrefix(k, "Stmt") || k == "StmtCase" || k == "StmtDefault" {
			continue
		}
		pk := obs.Kind(s.parent)
		if pk == "StmtClass" || pk == "StmtInterface" || pk == "StmtTrait" || pk == "StmtSwitch" {
			continue
		}
		if len(obs.SourceOrderTokens(s.node)) == 0 {
			continue
		}
		cand = append(cand, s)
	}
	if len(cand) == 0 {
		return
	}
	// prefer a statement that follows inline HTML
	s := cand[r.Intn(len(cand))]
	for pass := 0; pass < 2; pass++ {
		found := false
		for _, x := range cand {
			if pass == 0 && obs.Kind(x.parent) == "Root" {
				continue // inline HTML nested in a block first
			}
			if x.index > 0 && r.Chance(2, 3) {
				list := reflect.ValueOf(x.parent).Elem().FieldByName("Stmts")
				if prev, ok := list.Index(x.index - 1).Interface().(ast.Vertex); ok && obs.Kind(prev) == "StmtInlineHtml" {
					s, found = x, true
					break
				}
			}
		}
		if found {
			break
		}
	}
	for _, x := range cand[:0] {
		if x.index > 0 && r.Chance(1, 2) {
			list := reflect.ValueOf(x.parent).Elem().FieldByName("Stmts")
			if prev, ok := list.Index(x.index - 1).Interface().(ast.Vertex); ok && obs.Kind(prev) == "StmtInlineHtml" {
				s = x
				break
			}
		}
	}
	toks := obs.SourceOrderTokens(s.node)
	first, last := toks[0].Tok, toks[len(toks)-1].Tok
	if first.Position == nil || last.Position == nil || first.Position.StartPos < 0 || last.Position.EndPos > len(src) || last.Position.EndPos <= first.Position.StartPos {
		return
	}
	lo, hi := first.Position.StartPos, last.Position.EndPos
	ownsOpenTag, ownsClose := false, false
	for _, tr := range toks {
		if tr.Tok.ID == token.T_OPEN_TAG || (tr.Tok.ID == token.T_ECHO && bytes.HasPrefix(tr.Tok.Value, []byte("<?"))) {
			ownsOpenTag = true
		}
		if bytes.Contains(tr.Tok.Value, []byte("?>")) {
			ownsClose = true // (";" followed by a close tag is one token: the printer derives its mode from that text)
		}
	}
	if lo == 0 || ownsClose {
		return // the very first chunk (file start) or a statement closed by "?>": other rules apply
	}
	word := "zqstmt9"
	setSlot(s, &ast.StmtExpression{Expr: &ast.Identifier{Value: []byte(word)}})
	after, p := printString(pr.Root)
	setSlot(s, s.node)
	if p != nil {
		c.Violation(p.Sig, "printer panicked after replacing a statement: "+p.Msg, w)
		return
	}
	var pre, post strings.Builder
	pre.Write(src[:lo])
	post.Write(src[hi:])
	glue := []string{""}
	cls := "in-php-mode"
	if ownsOpenTag {
		// (the property does not say that PHP mode must be reopened: only that nothing outside the statement changes)
		glue = []string{"<?php ", "<?php\n", "<?php  ", ""}
		cls = "after-inline-html"
	}
	ok := false
	for _, g := range glue {
		for _, a := range []string{pre.String(), pre.String() + " "} {
			for _, b := range []string{post.String(), " " + post.String()} {
				if after == a+g+word+";"+b {
					ok = true
				}
			}
		}
	}
	c.Add("statement_replacements", 1)
	c.Cover("statement_replacements", cls+" in "+obs.Kind(s.parent))
	if !ok {
		c.Violation("print|replace-stmt|"+cls+"|"+obs.Kind(s.parent)+"|output-outside-statement-changed", fmt.Sprintf("replacing a %s in %s.Stmts by a token-less statement changed the output outside it (or PHP mode was not reopened once, in place): %s", obs.Kind(s.node), obs.Kind(s.parent), obs.FirstDiff(pre.String()+glue[0]+word+";"+post.String(), after)), w)
	}
}

func init() {
	core.Register(&core.Check{
		ID:   "C15",
		Rule: "cases = G5 synthetic nodes: every node kind x slot subsets (all 2^k for k<=12, else single/double toggles + PRNG subsets), every token a unique marker with unique free-floating markers, lists of 1..3 unique leaves with n-1 or n unique separators  ++  error-free parsed corpus/hostile inputs with one PRNG-chosen expression subtree edited three ways (replaced by a marker leaf, replaced by a token-less word, wrapped into a token-less print node), or one token / free-floating token given a new value of the same or another length with its position untouched, or one whole statement (preferably the one after inline HTML, also inside blocks) replaced by a token-less statement; non-trivial = at least one marker expected in the output / a replacement whose surroundings were compared; distinct by (kind, subset) / (input, version, chunk range)",
		Assumptions: []string{
			"expected order = struct field order with separator token lists interleaved with the list before them; a []byte Value is the default text of the token slot before it (printer contract visible in all leaf kinds)",
			"glue the printer may add by itself: PHP keywords/punctuation, '<?php ', '?>', single spaces",
		},
		Plan:       func(p core.Params) int { return len(synthCases(p)) + p.Pick(40000, 400000) },
		Exhaustive: func(p core.Params) bool { return false },
		Run: func(c *core.Ctx, idx int) {
			cases := synthCases(c.P)
			if idx < len(cases) {
				c15Synthetic(c, cases[idx], idx)
				return
			}
			r := core.NewRand(c.P.Seed, "C15in", idx)
			cor := gen.Corpus()
			var src []byte
			ver := r.Pick("5.6", "7.4", "7.0", "5.3")
			if r.Chance(2, 3) && idx%4 != 2 || r.Chance(1, 4) {
				src = []byte(cor[r.Intn(len(cor))].Src)
			} else {
				pc := genParseCase(c.P.Seed, "C15gen", idx, 20)
				src, ver = pc.Src, pc.Ver
			}
			switch idx % 4 {
			case 1:
				c15TokenEdit(c, src, ver, r)
			case 2:
				c15StmtEdit(c, src, ver, r)
			default:
				c15Replace(c, src, ver, r)
			}
		},
		RunWitness: func(c *core.Ctx, w core.Witness) {
			c15Replace(c, w.Src, w.Ver, core.NewRand(c.P.Seed, "C15w"))
		},
	})
}
