// vgen prints generated programs (development aid): vgen <fam> <seed> <n> [grep-substring]
package main

import (
	"fmt"
	"os"
	"strconv"
	"strings"

	"verif/harness/core"
	"verif/harness/gen"
	"verif/harness/obs"
)

func scaled() {
	for _, sh := range gen.ScaledShapes {
		for _, n := range []int{1, 3, 40} {
			for _, nl := range []string{"\n", "\r\n"} {
				src := sh.Make(n, nl)
				for _, ver := range []string{"5.6", "7.4"} {
					if sh.Fam == 7 && ver == "5.6" {
						continue
					}
					pr := obs.Parse([]byte(src), ver, true)
					if pr.Panic != nil || len(pr.Errors) > 0 || pr.Root == nil {
						fmt.Printf("NOT VALID %s n=%d %s: %v %q\n", sh.Name, n, ver, obs.ErrStrings(pr.Errors), src[:min(len(src), 120)])
					}
				}
			}
		}
	}
	fmt.Println(len(gen.ScaledShapes), "shapes checked")
}

func main() {
	if os.Args[1] == "scaled" {
		scaled()
		return
	}
	fam, _ := strconv.Atoi(os.Args[1])
	seed, _ := strconv.ParseInt(os.Args[2], 10, 64)
	n, _ := strconv.Atoi(os.Args[3])
	sub := ""
	if len(os.Args) > 4 {
		sub = os.Args[4]
	}
	for i := 0; i < n; i++ {
		r := core.NewRand(seed, "vgen", i)
		g := gen.NewG(r.Split("prog"), gen.Opts{Fam: fam, Flex73: fam == 7, MaxDepth: 4, MaxStmts: 4})
		root := g.Program()
		src := string(gen.Render(root.Tokens(), gen.LayCanon, r, nil))
		if sub == "" || strings.Contains(src, sub) {
			fmt.Printf("--- %d\n%s\n", i, src)
		}
	}
}
