#!/bin/bash
# usage: tools/confirmseed.sh <seed-dir> <name> <property> <demo-pkg-dir> <run-regex> <needs...>
# Confirms a seeded change in a scratch worktree of /repo HEAD:
#   (c) demo passes on the unchanged tree, (b) demo fails with the change, (a) the full suite passes with the change.
# On success copies patch.diff + demo + meta.json to /verif/seeded/<name>/.
set -u
export GOFLAGS=-mod=mod GOPROXY=off GOSUMDB=off GOTOOLCHAIN=local
SD=$1; NAME=$2; PROP=$3; PKG=$4; RX=$5; shift 5; NEEDS="$*"
WT=/tmp/confirm-$NAME-$$
git -C /repo worktree add -q --detach "$WT" HEAD || exit 2
trap 'git -C /repo worktree remove --force "$WT" 2>/dev/null; rm -rf "$WT"' EXIT
cd "$WT" || exit 2
DEMO=$(ls "$SD"/*_test.go 2>/dev/null | head -1)
MAIN=""
if [ -z "$DEMO" ] && [ -f "$SD/demo/main.go" ]; then MAIN="$SD/demo/main.go"; DEMO=$MAIN; fi
if [ -z "$DEMO" ]; then echo "no demo in $SD"; exit 2; fi
rundemo() {
  if [ -n "$MAIN" ]; then
    mkdir -p cmd/zzseeddemo && cp "$MAIN" cmd/zzseeddemo/main.go
    go run ./cmd/zzseeddemo >"$1" 2>&1; rc=$?
    rm -rf cmd/zzseeddemo
    return $rc
  fi
  cp "$DEMO" "$PKG/zz_seed_demo_test.go"
  go test ${SEED_TESTFLAGS:-} -vet=off -count=1 -run "$RX" "./$PKG" >"$1" 2>&1; rc=$?
  rm "$PKG/zz_seed_demo_test.go"
  return $rc
}
if rundemo /tmp/confirm-$$.c; then C=pass; else C=FAIL; fi
grep -q "no tests to run" /tmp/confirm-$$.c && C=NOTESTS
git apply "$SD/patch.diff" || { echo "patch does not apply"; exit 2; }
if rundemo /tmp/confirm-$$.b; then B=PASS; else B=fail; fi
if go test -vet=off -count=1 ./... >/tmp/confirm-$$.a 2>&1; then A=pass; else A=FAIL; fi
echo "$NAME: (a) suite with change: $A   (b) demo with change: $B   (c) demo without change: $C"
if [ "$A" = pass ] && [ "$B" = fail ] && [ "$C" = pass ]; then
  D=/verif/seeded/$NAME
  mkdir -p "$D"
  cp "$SD/patch.diff" "$D/patch.diff"
  if [ -n "$MAIN" ]; then mkdir -p "$D/demo" && cp "$MAIN" "$D/demo/main.go"; else cp "$DEMO" "$D/demo_test.go"; fi
  [ -f "$SD/notes.md" ] && cp "$SD/notes.md" "$D/notes.md"
  python3 - "$D" "$PROP" "$PKG" "$RX" "$NEEDS" <<'E'
import json, sys, subprocess
d, prop, pkg, rx, needs = sys.argv[1:6]
head = subprocess.check_output(["git", "-C", "/repo", "rev-parse", "--short", "HEAD"]).decode().strip()
meta = {"property": prop, "needs_to_manifest": needs,
        "demo": ({"copy_to": "cmd/zzseeddemo/main.go", "command": "go run ./cmd/zzseeddemo"} if pkg == "cmd" else {"copy_to": pkg + "/", "command": "go test -vet=off -count=1 -run '%s' ./%s" % (rx, pkg)}),
        "confirmed_on_repo_head": head,
        "confirmed": {"suite_passes_with_change": True, "demo_fails_with_change": True, "demo_passes_without_change": True},
        "ran": ["tools/confirmseed.sh (scratch worktree of /repo HEAD, removed afterwards)"],
        "detected_by": {}}
json.dump(meta, open(d + "/meta.json", "w"), indent=1)
E
  echo "kept as $D"
else
  echo "NOT kept; logs: /tmp/confirm-$$.{a,b,c}"; tail -5 /tmp/confirm-$$.a /tmp/confirm-$$.b /tmp/confirm-$$.c
  exit 1
fi
rm -f /tmp/confirm-$$.?
