package gen

import (
	"strings"

	"verif/harness/core"
)

// G6 — namespace programs with the expected result of PHP's compile-time name
// resolution (php.net "Name resolution rules"):
//   - fully qualified names resolve to themselves without the leading backslash;
//   - namespace\X resolves to the current namespace + X;
//   - a qualified name A\B: if the first segment matches a class/namespace import (case-
//     insensitively) it is replaced by the import, otherwise the current namespace is prepended;
//   - an unqualified name: class-like positions use the class import table (case-insensitive),
//     function calls the function import table (case-insensitive), constant fetches the
//     constant import table (case-sensitive); otherwise the current namespace is prepended;
//   - self / parent / static, scalar type names and true / false / null are not resolved;
//   - declarations get the current namespace prepended;
//   - imports belong to one namespace block (a namespace declaration starts a new table).

// NSRef is one expected entry of the resolved-names map.
type NSRef struct {
	N       *Node  // the node that must be the key (a name node or a declaration node)
	Want    string // expected value; for Special: the name itself, absent is accepted too
	Special bool
	What    string // position class, for coverage and signatures
}

type nsModel struct {
	ns  string
	cls map[string]string // lower(alias) -> full
	fn  map[string]string // lower(alias) -> full
	cn  map[string]string // alias -> full
}

func newNSModel(ns string) *nsModel {
	return &nsModel{ns: ns, cls: map[string]string{}, fn: map[string]string{}, cn: map[string]string{}}
}

func (m *nsModel) prefixed(name string) string {
	if m.ns == "" {
		return name
	}
	return m.ns + "\\" + name
}

var nsSpecialClass = map[string]bool{"self": true, "parent": true, "static": true, "int": true, "float": true, "bool": true, "string": true, "void": true, "iterable": true, "object": true}

// resolve implements the rules above. form: 0 unqualified/qualified, 1 fully qualified, 2 relative.
// ctx: "class", "function", "const". special reports a name that must be left alone.
func (m *nsModel) resolve(form int, parts []string, ctx string) (want string, special bool) {
	joined := strings.Join(parts, "\\")
	switch form {
	case 1:
		return joined, false
	case 2:
		return m.prefixed(joined), false
	}
	if len(parts) == 1 {
		l := strings.ToLower(parts[0])
		switch ctx {
		case "class":
			if nsSpecialClass[l] {
				return parts[0], true
			}
			if f, ok := m.cls[l]; ok {
				return f, false
			}
		case "function":
			if f, ok := m.fn[l]; ok {
				return f, false
			}
		case "const":
			if l == "true" || l == "false" || l == "null" {
				return parts[0], true
			}
			if f, ok := m.cn[parts[0]]; ok {
				return f, false
			}
		}
		return m.prefixed(joined), false
	}
	if f, ok := m.cls[strings.ToLower(parts[0])]; ok {
		return f + "\\" + strings.Join(parts[1:], "\\"), false
	}
	return m.prefixed(joined), false
}

// NSGen generates one namespace program.
type NSGen struct {
	g    *G
	m    *nsModel
	Refs []NSRef
	Pos  map[string]int // position-class coverage
}

// (two segments carry non-ASCII letters: PHP folds the case of A-Z only, and the generator never changes other bytes)
var nsSegs = []string{"App", "Lib", "Db", "Util", "Model", "User", "Conn", "Str", "Http", "Foo", "Bar", "Baz", "Qux", "\u00c9cole", "\u00dcber"}
var nsFuncs = []string{"helper", "run", "make", "strlen", "Foo", "str", "define", "class_exists", "defined"}
var nsConsts = []string{"MAX", "VERSION", "Flag", "Foo", "DEBUG"}

func (x *NSGen) r() *core.Rand { return x.g.R }

func flipCase(r *core.Rand, s string) string {
	switch k := r.Intn(4); k {
	case 0, 1, 2:
		up, low := k == 0, k == 1
		b := []byte(s)
		for i := range b {
			if (up && b[i] >= 'a' && b[i] <= 'z') || (low && b[i] >= 'A' && b[i] <= 'Z') || (!up && !low && r.Bool()) {
				if b[i] >= 'a' && b[i] <= 'z' {
					b[i] -= 32
				} else if b[i] >= 'A' && b[i] <= 'Z' {
					b[i] += 32
				}
			}
		}
		return string(b)
	}
	return s
}

// nameNode builds a name node from segments. form as in resolve.
func (x *NSGen) nameNode(form int, parts []string) *Node {
	var ps []*Node
	var body []interface{}
	// PHP <= 7.4 lexes a qualified name as separate tokens: blanks and comments may stand around the separators
	spaced := x.r().Chance(1, 8)
	for i, s := range parts {
		p := &Node{Kind: "NamePart", Val: s, HasVal: true, Parts: []interface{}{t(s)}}
		if i > 0 {
			p.Parts = []interface{}{tn(s)}
			if spaced {
				p.Parts = []interface{}{t(s)}
				body = append(body, t("\\"))
			} else {
				body = append(body, tn("\\"))
			}
		}
		ps = append(ps, p)
		body = append(body, p)
	}
	switch form {
	case 1:
		ps[0].Parts = []interface{}{tn(parts[0])}
		return &Node{Kind: "NameFullyQualified", Kids: []Kid{list("Parts", ps)}, Parts: parts2(t("\\"), body), Prec: 100}
	case 2:
		ps[0].Parts = []interface{}{tn(parts[0])}
		return &Node{Kind: "NameRelative", Kids: []Kid{list("Parts", ps)}, Parts: parts2(x.g.kw("namespace"), tn("\\"), body), Prec: 100}
	}
	return &Node{Kind: "Name", Kids: []Kid{list("Parts", ps)}, Parts: body, Prec: 100}
}

func parts2(xs ...interface{}) []interface{} { return parts(xs...) }

// ref generates a name reference in context ctx and records the expectation.
func (x *NSGen) ref(ctx, what string) *Node {
	r := x.r()
	form := 0
	switch r.Intn(10) {
	case 0, 1:
		form = 1
	case 2:
		form = 2
	}
	var segs []string
	n := 1
	if r.Chance(2, 5) {
		n = r.Range(2, 3)
		if r.Chance(1, 8) {
			n = r.Range(2, 9)
		}
	}
	pool := nsSegs
	for i := 0; i < n; i++ {
		p := pool
		if i == n-1 {
			switch ctx {
			case "function":
				p = nsFuncs
			case "const":
				p = nsConsts
			}
		}
		s := p[r.Intn(len(p))]
		if r.Chance(1, 3) {
			s = flipCase(r, s)
		}
		segs = append(segs, s)
	}
	if form == 0 && n == 1 && r.Chance(1, 8) {
		switch ctx {
		case "class":
			segs[0] = flipCase(r, r.Pick("self", "parent"))
		case "const":
			segs[0] = flipCase(r, r.Pick("true", "false", "null"))
		}
	} else if form == 0 && n == 1 && ctx != "class" && r.Chance(1, 8) {
		// functions and constants spelled like the names that are special in class positions are ordinary names
		segs[0] = flipCase(r, r.Pick("object", "string", "int", "float", "bool", "iterable", "self", "parent", "void"))
		if ctx == "const" {
			// (a constant named like a cast type inside parentheses would be a cast)
			segs[0] = flipCase(r, r.Pick("iterable", "self", "parent", "void"))
		}
	}
	nd := x.nameNode(form, segs)
	want, special := x.m.resolve(form, segs, ctx)
	x.Refs = append(x.Refs, NSRef{N: nd, Want: want, Special: special, What: what})
	x.Pos[what]++
	return nd
}

// typeRef: a type in a signature (may be a special scalar name, nullable, array/callable).
func (x *NSGen) typeRef(what string) *Node {
	r := x.r()
	var ty *Node
	switch r.Intn(8) {
	case 0:
		ty = x.g.identifier(r.Pick("array", "callable"))
	case 1:
		if x.g.O.Fam == 7 {
			s := flipCase(r, r.Pick("int", "string", "bool", "float", "iterable", "object", "self"))
			ty = x.nameNode(0, []string{s})
			x.Refs = append(x.Refs, NSRef{N: ty, Want: s, Special: true, What: what + ":scalar"})
			x.Pos[what+":scalar"]++
		} else {
			ty = x.ref("class", what)
		}
	default:
		ty = x.ref("class", what)
	}
	if x.g.O.Fam == 7 && r.Chance(1, 4) {
		return &Node{Kind: "Nullable", Kids: []Kid{one("Expr", ty)}, Parts: parts(t("?"), ty)}
	}
	return ty
}

func (x *NSGen) params(what string) ([]*Node, []interface{}) {
	var ps []*Node
	for i, n := 0, x.r().Intn(3); i < n; i++ {
		p := &Node{Kind: "Parameter"}
		if x.r().Chance(2, 3) {
			ty := x.typeRef(what + "-param-type")
			p.Kids = append(p.Kids, one("Type", ty))
			p.Parts = append(p.Parts, ty)
		}
		v := x.g.simpleVarPlain()
		p.Kids = append(p.Kids, one("Var", v))
		p.Parts = append(p.Parts, v)
		if x.r().Chance(1, 4) {
			d := x.constFetchOrClassConst(what + "-default")
			p.Kids = append(p.Kids, one("DefaultValue", d))
			p.Parts = append(p.Parts, t("="), d)
		}
		ps = append(ps, p)
	}
	return ps, parts(t("("), sepList(ps, ","), t(")"))
}

func (x *NSGen) retType(what string) (*Node, []interface{}) {
	if x.g.O.Fam != 7 || x.r().Chance(1, 2) {
		return nil, nil
	}
	if x.r().Chance(1, 6) {
		v := x.nameNode(0, []string{"void"})
		x.Refs = append(x.Refs, NSRef{N: v, Want: "void", Special: true, What: what + "-return-type:scalar"})
		return v, parts(t(":"), v)
	}
	ty := x.typeRef(what + "-return-type")
	return ty, parts(t(":"), ty)
}

func (x *NSGen) constFetchOrClassConst(what string) *Node {
	if x.r().Bool() {
		nm := x.ref("const", what+"-const-fetch")
		return &Node{Kind: "ExprConstFetch", Kids: []Kid{one("Const", nm)}, Parts: parts(nm), Prec: 100}
	}
	cls := x.ref("class", what+"-class-const")
	c := x.g.identifier(x.r().Pick("A", "B", "class"))
	return &Node{Kind: "ExprClassConstFetch", Kids: []Kid{one("Class", cls), one("Const", c)}, Parts: parts(cls, t("::"), c), Prec: 100}
}

func (x *NSGen) args() ([]*Node, []interface{}) {
	var as []*Node
	for i, n := 0, x.r().Intn(3); i < n; i++ {
		var e *Node
		if x.r().Chance(1, 4) {
			// names inside string literals (define('A\\B\\C', ..), class_exists("A\\B")) are text: nothing is resolved, nothing touched
			e = x.g.leaf("ScalarString", x.r().Pick("'App\\\\Config\\\\DEBUG'", "\"Lib\\\\Str\"", "'\\\\Foo\\\\bar'", "'App\\Str'", "'Db\\\\Conn\\\\MAX_SIZE'", "'Util\\\\helper'", "\"a\\\\\\\\b\""))
		} else {
			e = x.expr(2)
		}
		as = append(as, &Node{Kind: "Argument", Kids: []Kid{one("Expr", e)}, Parts: parts(e)})
	}
	return as, parts(t("("), sepList(as, ","), t(")"))
}

// expr: an expression containing name references in resolvable positions.
func (x *NSGen) expr(depth int) *Node {
	r := x.r()
	if depth > 3 {
		return x.g.simpleVar()
	}
	switch r.Intn(14) {
	case 0:
		if x.g.O.Fam == 7 && r.Chance(1, 3) {
			// anonymous class: its parent, interfaces, constructor arguments and members are resolved; it declares no name
			c := &Node{Kind: "StmtClass", Parts: parts(x.g.kw("class"))}
			if r.Bool() {
				as, ps := x.args()
				c.Kids = append(c.Kids, list("Args", as))
				c.Parts = append(c.Parts, ps...)
			}
			if r.Chance(2, 3) {
				e := x.ref("class", "anon-extends")
				c.Kids = append(c.Kids, one("Extends", e))
				c.Parts = append(c.Parts, x.g.kw("extends"), e)
			}
			if r.Chance(2, 3) {
				var is []*Node
				for i, k := 0, r.Range(1, 2); i < k; i++ {
					is = append(is, x.ref("class", "anon-implements"))
				}
				c.Kids = append(c.Kids, list("Implements", is))
				c.Parts = append(c.Parts, parts(x.g.kw("implements"), sepList(is, ","))...)
			}
			var ss []*Node
			if r.Bool() {
				ss = append(ss, x.traitUse())
			}
			if r.Bool() && depth < 3 {
				ss = append(ss, x.method())
			}
			c.Kids = append(c.Kids, list("Stmts", ss))
			c.Parts = append(c.Parts, parts(t("{"), nodesToParts(ss), t("}"))...)
			return &Node{Kind: "ExprNew", Kids: []Kid{one("Class", c)}, Parts: parts(x.g.kw("new"), c), Prec: precNew, Prefix: true}
		}
		cls := x.ref("class", "new")
		as, ps := x.args()
		return &Node{Kind: "ExprNew", Kids: []Kid{one("Class", cls), list("Args", as)}, Parts: parts(x.g.kw("new"), cls, ps), Prec: precNew, Prefix: true}
	case 1:
		cls := x.ref("class", "static-call")
		m := x.g.identifier(x.g.ident())
		as, ps := x.args()
		return &Node{Kind: "ExprStaticCall", Kids: []Kid{one("Class", cls), one("Call", m), list("Args", as)}, Parts: parts(cls, t("::"), m, ps), Prec: 100}
	case 2:
		cls := x.ref("class", "static-property")
		pv := x.g.simpleVarPlain()
		return &Node{Kind: "ExprStaticPropertyFetch", Kids: []Kid{one("Class", cls), one("Prop", pv)}, Parts: parts(cls, t("::"), pv), Prec: 100}
	case 3:
		return x.constFetchOrClassConst("expr")
	case 4:
		l := x.g.simpleVar()
		cls := x.ref("class", "instanceof")
		n := &Node{Kind: "ExprInstanceOf", Kids: []Kid{one("Expr", l), one("Class", cls)}, Parts: parts(l, x.g.kw("instanceof"), cls), Prec: precInst}
		return x.g.brackets(n)
	case 5, 6:
		fn := x.ref("function", "function-call")
		as, ps := x.args()
		return &Node{Kind: "ExprFunctionCall", Kids: []Kid{one("Function", fn), list("Args", as)}, Parts: parts(fn, ps), Prec: 100}
	case 7:
		// closure with typed signature
		n := &Node{Kind: "ExprClosure", Prec: 100}
		n.Parts = parts(x.g.kw("function"))
		ps, pp := x.params("closure")
		n.Kids = append(n.Kids, list("Params", ps))
		n.Parts = append(n.Parts, pp...)
		if rt, rp := x.retType("closure"); rt != nil {
			n.Kids = append(n.Kids, one("ReturnType", rt))
			n.Parts = append(n.Parts, rp...)
		}
		ss := x.stmts(depth+1, r.Intn(2))
		n.Kids = append(n.Kids, list("Stmts", ss))
		n.Parts = append(n.Parts, parts(t("{"), nodesToParts(ss), t("}"))...)
		return n
	case 8:
		if x.g.O.Fam == 7 {
			n := &Node{Kind: "ExprArrowFunction", Prec: precAssign - 1, Prefix: true}
			n.Parts = parts(x.g.kw("fn"))
			ps, pp := x.params("arrow-fn")
			n.Kids = append(n.Kids, list("Params", ps))
			n.Parts = append(n.Parts, pp...)
			if rt, rp := x.retType("arrow-fn"); rt != nil {
				n.Kids = append(n.Kids, one("ReturnType", rt))
				n.Parts = append(n.Parts, rp...)
			}
			e := x.expr(depth + 1)
			n.Kids = append(n.Kids, one("Expr", e))
			n.Parts = append(n.Parts, t("=>"), e)
			return x.g.brackets(n)
		}
		fallthrough
	case 10:
		// names inside array literals, keys, ternaries and assignments
		k, v := x.expr(depth+1), x.expr(depth+1)
		if k.Prec < 100 {
			k = x.g.brackets(k)
		}
		it := &Node{Kind: "ExprArrayItem", Kids: []Kid{one("Key", k), one("Val", v)}, Parts: parts(k, t("=>"), v)}
		arr := &Node{Kind: "ExprArray", Kids: []Kid{list("Items", []*Node{it})}, Parts: parts(t("["), it, t("]")), Prec: 100}
		tv := x.g.simpleVar()
		return x.g.brackets(&Node{Kind: "ExprAssign", Kids: []Kid{one("Var", tv), one("Expr", arr)}, Parts: parts(tv, t("="), arr), Prec: precAssign})
	case 11:
		c, a, b := x.g.simpleVar(), x.expr(depth+1), x.expr(depth+1)
		if b.Prec < 100 {
			b = x.g.brackets(b)
		}
		if a.Prec < 100 {
			a = x.g.brackets(a)
		}
		return x.g.brackets(&Node{Kind: "ExprTernary", Kids: []Kid{one("Cond", c), one("IfTrue", a), one("IfFalse", b)}, Parts: parts(c, t("?"), a, t(":"), b), Prec: precTernary})
	case 9:
		l, rr := x.expr(depth+1), x.expr(depth+1)
		if l.Prec < 100 {
			l = x.g.brackets(l)
		}
		if rr.Prec < 100 {
			rr = x.g.brackets(rr)
		}
		return &Node{Kind: "ExprBinaryPlus", Kids: []Kid{one("Left", l), one("Right", rr)}, Parts: parts(l, t("+"), rr), Prec: 21}
	}
	return x.g.simpleVar()
}

func (x *NSGen) exprStmt(depth int) *Node {
	e := x.expr(depth)
	return &Node{Kind: "StmtExpression", Kids: []Kid{one("Expr", e)}, Parts: parts(e, t(";"))}
}

func (x *NSGen) decl(n *Node, name, what string) {
	x.Refs = append(x.Refs, NSRef{N: n, Want: x.m.prefixed(name), What: "declare-" + what})
	x.Pos["declare-"+what]++
}

func (x *NSGen) method() *Node {
	n := &Node{Kind: "StmtClassMethod"}
	ms, mp := x.g.modifiers([]string{"public", "static", "protected"}, 2)
	n.Kids = append(n.Kids, list("Modifiers", ms))
	nm := x.g.identifier(x.g.ident())
	ps, pp := x.params("method")
	n.Kids = append(n.Kids, one("Name", nm), list("Params", ps))
	n.Parts = parts(mp, x.g.kw("function"), nm, pp)
	if rt, rp := x.retType("method"); rt != nil {
		n.Kids = append(n.Kids, one("ReturnType", rt))
		n.Parts = append(n.Parts, rp...)
	}
	ss := x.stmts(2, x.r().Intn(3))
	b := &Node{Kind: "StmtStmtList", Kids: []Kid{list("Stmts", ss)}, Parts: parts(t("{"), nodesToParts(ss), t("}"))}
	n.Kids = append(n.Kids, one("Stmt", b))
	n.Parts = append(n.Parts, b)
	return n
}

func (x *NSGen) classLike() *Node {
	r := x.r()
	name := nsSegs[r.Intn(len(nsSegs))]
	if r.Chance(1, 3) {
		name = x.g.ident()
	}
	nm := x.g.identifier(name)
	switch r.Intn(5) {
	case 0: // interface
		n := &Node{Kind: "StmtInterface", Kids: []Kid{one("Name", nm)}}
		n.Parts = parts(x.g.kw("interface"), nm)
		if r.Bool() {
			var es []*Node
			for i, k := 0, r.Range(1, 2); i < k; i++ {
				es = append(es, x.ref("class", "interface-extends"))
			}
			n.Kids = append(n.Kids, list("Extends", es))
			n.Parts = append(n.Parts, parts(x.g.kw("extends"), sepList(es, ","))...)
		}
		n.Parts = append(n.Parts, t("{"), t("}"))
		x.decl(n, name, "interface")
		return n
	case 1: // trait
		var ss []*Node
		if r.Bool() {
			ss = append(ss, x.method())
		}
		n := &Node{Kind: "StmtTrait", Kids: []Kid{one("Name", nm), list("Stmts", ss)}, Parts: parts(x.g.kw("trait"), nm, t("{"), nodesToParts(ss), t("}"))}
		x.decl(n, name, "trait")
		return n
	}
	n := &Node{Kind: "StmtClass"}
	ms, mp := x.g.modifiers([]string{"abstract", "final"}, 1)
	n.Kids = append(n.Kids, list("Modifiers", ms), one("Name", nm))
	n.Parts = parts(mp, x.g.kw("class"), nm)
	if r.Bool() {
		e := x.ref("class", "extends")
		n.Kids = append(n.Kids, one("Extends", e))
		n.Parts = append(n.Parts, x.g.kw("extends"), e)
	}
	if r.Bool() {
		var is []*Node
		for i, k := 0, r.Range(1, 2); i < k; i++ {
			is = append(is, x.ref("class", "implements"))
		}
		n.Kids = append(n.Kids, list("Implements", is))
		n.Parts = append(n.Parts, parts(x.g.kw("implements"), sepList(is, ","))...)
	}
	x.decl(n, name, "class")
	var ss []*Node
	for i, k := 0, r.Intn(4); i < k; i++ {
		switch r.Intn(4) {
		case 0:
			ss = append(ss, x.traitUse())
		case 1:
			if x.g.O.Fam == 7 {
				// typed property
				ty := x.typeRef("property-type")
				v := x.g.simpleVarPlain()
				tk := x.g.kw("public")
				id := &Node{Kind: "Identifier", Val: tk.S, HasVal: true, Parts: []interface{}{tk}}
				p := &Node{Kind: "StmtProperty", Kids: []Kid{one("Var", v)}, Parts: parts(v)}
				ss = append(ss, &Node{Kind: "StmtPropertyList", Kids: []Kid{list("Modifiers", []*Node{id}), one("Type", ty), list("Props", []*Node{p})}, Parts: parts(id, ty, p, t(";"))})
				continue
			}
			fallthrough
		case 2:
			// class constant with a resolvable default
			cn := x.g.identifier(x.g.ident())
			d := x.constFetchOrClassConst("class-const-value")
			c := &Node{Kind: "StmtConstant", Kids: []Kid{one("Name", cn), one("Expr", d)}, Parts: parts(cn, t("="), d)}
			ss = append(ss, &Node{Kind: "StmtClassConstList", Kids: []Kid{list("Consts", []*Node{c})}, Parts: parts(x.g.kw("const"), c, t(";"))})
		default:
			ss = append(ss, x.method())
		}
	}
	n.Kids = append(n.Kids, list("Stmts", ss))
	n.Parts = append(n.Parts, parts(t("{"), nodesToParts(ss), t("}"))...)
	return n
}

func (x *NSGen) traitUse() *Node {
	r := x.r()
	var ts []*Node
	for i, k := 0, r.Range(1, 2); i < k; i++ {
		ts = append(ts, x.ref("class", "trait-use"))
	}
	n := &Node{Kind: "StmtTraitUse", Kids: []Kid{list("Traits", ts)}}
	n.Parts = parts(x.g.kw("use"), sepList(ts, ","))
	if r.Bool() {
		n.Parts = append(n.Parts, t(";"))
		return n
	}
	var ads []*Node
	for i, k := 0, r.Range(1, 2); i < k; i++ {
		meth := x.g.identifier(x.g.ident())
		if r.Bool() {
			tr := x.ref("class", "trait-precedence")
			var ins []*Node
			for j, m := 0, r.Range(1, 2); j < m; j++ {
				ins = append(ins, x.ref("class", "trait-insteadof"))
			}
			ads = append(ads, &Node{Kind: "StmtTraitUsePrecedence", Kids: []Kid{one("Trait", tr), one("Method", meth), list("Insteadof", ins)},
				Parts: parts(tr, t("::"), meth, x.g.kw("insteadof"), sepList(ins, ","), t(";"))})
		} else {
			a := &Node{Kind: "StmtTraitUseAlias"}
			if r.Bool() {
				tr := x.ref("class", "trait-alias")
				a.Kids = append(a.Kids, one("Trait", tr))
				a.Parts = parts(tr, t("::"))
			}
			al := x.g.identifier(x.g.ident())
			a.Kids = append(a.Kids, one("Method", meth), one("Alias", al))
			a.Parts = append(a.Parts, parts(meth, x.g.kw("as"), al, t(";"))...)
			ads = append(ads, a)
		}
	}
	n.Kids = append(n.Kids, list("Adaptations", ads))
	n.Parts = append(n.Parts, parts(t("{"), nodesToParts(ads), t("}"))...)
	return n
}

func (x *NSGen) funcDecl(depth int) *Node {
	name := nsFuncs[x.r().Intn(len(nsFuncs))]
	nm := x.g.identifier(name)
	n := &Node{Kind: "StmtFunction"}
	ps, pp := x.params("function")
	n.Kids = append(n.Kids, one("Name", nm), list("Params", ps))
	n.Parts = parts(x.g.kw("function"), nm, pp)
	if rt, rp := x.retType("function"); rt != nil {
		n.Kids = append(n.Kids, one("ReturnType", rt))
		n.Parts = append(n.Parts, rp...)
	}
	x.decl(n, name, "function")
	ss := x.stmts(depth+1, x.r().Intn(3))
	n.Kids = append(n.Kids, list("Stmts", ss))
	n.Parts = append(n.Parts, parts(t("{"), nodesToParts(ss), t("}"))...)
	return n
}

func (x *NSGen) constDecl() *Node {
	var cs []*Node
	for i, k := 0, x.r().Range(1, 2); i < k; i++ {
		name := nsConsts[x.r().Intn(len(nsConsts))]
		nm := x.g.identifier(name)
		v := x.g.number()
		c := &Node{Kind: "StmtConstant", Kids: []Kid{one("Name", nm), one("Expr", v)}, Parts: parts(nm, t("="), v)}
		x.decl(c, name, "const")
		cs = append(cs, c)
	}
	return &Node{Kind: "StmtConstList", Kids: []Kid{list("Consts", cs)}, Parts: parts(x.g.kw("const"), sepList(cs, ","), t(";"))}
}

func (x *NSGen) tryCatch(depth int) *Node {
	ss := x.stmts(depth+1, x.r().Intn(2))
	n := &Node{Kind: "StmtTry", Kids: []Kid{list("Stmts", ss)}}
	n.Parts = parts(x.g.kw("try"), t("{"), nodesToParts(ss), t("}"))
	var cs []*Node
	for i, k := 0, x.r().Range(1, 2); i < k; i++ {
		var tys []*Node
		nt := 1
		if x.g.O.Fam == 7 && x.r().Chance(1, 2) {
			nt = 2
		}
		for j := 0; j < nt; j++ {
			tys = append(tys, x.ref("class", "catch"))
		}
		v := x.g.simpleVarPlain()
		c := &Node{Kind: "StmtCatch", Kids: []Kid{list("Types", tys), one("Var", v)}, Parts: parts(x.g.kw("catch"), t("("), sepList(tys, "|"), v, t(")"), t("{"), t("}"))}
		cs = append(cs, c)
		n.Parts = append(n.Parts, c)
	}
	n.Kids = append(n.Kids, list("Catches", cs))
	return n
}

func (x *NSGen) stmts(depth, n int) []*Node {
	var out []*Node
	for i := 0; i < n; i++ {
		switch k := x.r().Intn(10); {
		case k < 5 || depth > 2:
			out = append(out, x.exprStmt(depth))
		case k == 5 && x.r().Bool():
			out = append(out, x.control(depth))
		case k == 5:
			out = append(out, x.tryCatch(depth))
		case k == 6:
			out = append(out, x.funcDecl(depth))
		case k == 7:
			out = append(out, x.classLike())
		default:
			e := x.expr(depth)
			out = append(out, &Node{Kind: "StmtReturn", Kids: []Kid{one("Expr", e)}, Parts: parts(x.g.kw("return"), e, t(";"))})
		}
	}
	return out
}

// control wraps name-bearing expressions into every expression slot of the control structures,
// so that a traversal that skips one slot leaves its names unresolved.
func (x *NSGen) control(depth int) *Node {
	g := x.g
	body := func() *Node {
		ss := x.stmts(depth+1, x.r().Intn(2))
		return &Node{Kind: "StmtStmtList", Kids: []Kid{list("Stmts", ss)}, Parts: parts(t("{"), nodesToParts(ss), t("}"))}
	}
	e := func() *Node { return x.expr(depth + 1) }
	switch x.r().Intn(8) {
	case 0:
		i, c, l := []*Node{e()}, []*Node{e(), e()}, []*Node{e(), e()}
		b := body()
		return &Node{Kind: "StmtFor", Kids: []Kid{list("Init", i), list("Cond", c), list("Loop", l), one("Stmt", b)},
			Parts: parts(g.kw("for"), t("("), sepList(i, ","), t(";"), sepList(c, ","), t(";"), sepList(l, ","), t(")"), b)}
	case 1:
		c, b := e(), body()
		n := &Node{Kind: "StmtIf", Kids: []Kid{one("Cond", c), one("Stmt", b)}, Parts: parts(g.kw("if"), t("("), c, t(")"), b)}
		c2, b2 := e(), body()
		ei := &Node{Kind: "StmtElseIf", Kids: []Kid{one("Cond", c2), one("Stmt", b2)}, Parts: parts(g.kw("elseif"), t("("), c2, t(")"), b2)}
		b3 := body()
		el := &Node{Kind: "StmtElse", Kids: []Kid{one("Stmt", b3)}, Parts: parts(g.kw("else"), b3)}
		n.Kids = append(n.Kids, list("ElseIf", []*Node{ei}), one("Else", el))
		n.Parts = append(n.Parts, ei, el)
		return n
	case 2:
		c, b := e(), body()
		return &Node{Kind: "StmtWhile", Kids: []Kid{one("Cond", c), one("Stmt", b)}, Parts: parts(g.kw("while"), t("("), c, t(")"), b)}
	case 3:
		b, c := body(), e()
		return &Node{Kind: "StmtDo", Kids: []Kid{one("Stmt", b), one("Cond", c)}, Parts: parts(g.kw("do"), b, g.kw("while"), t("("), c, t(")"), t(";"))}
	case 4:
		ex, v, b := e(), g.simpleVarPlain(), body()
		return &Node{Kind: "StmtForeach", Kids: []Kid{one("Expr", ex), one("Var", v), one("Stmt", b)}, Parts: parts(g.kw("foreach"), t("("), ex, g.kw("as"), v, t(")"), b)}
	case 5:
		c := e()
		ce := e()
		ss := x.stmts(depth+1, 1)
		cs := &Node{Kind: "StmtCase", Kids: []Kid{one("Cond", ce), list("Stmts", ss)}, Parts: parts(g.kw("case"), ce, t(":"), nodesToParts(ss))}
		ds := x.stmts(depth+1, 1)
		df := &Node{Kind: "StmtDefault", Kids: []Kid{list("Stmts", ds)}, Parts: parts(g.kw("default"), t(":"), nodesToParts(ds))}
		return &Node{Kind: "StmtSwitch", Kids: []Kid{one("Cond", c), list("Cases", []*Node{cs, df})}, Parts: parts(g.kw("switch"), t("("), c, t(")"), t("{"), cs, df, t("}"))}
	case 6:
		es := []*Node{e(), e()}
		return &Node{Kind: "StmtEcho", Kids: []Kid{list("Exprs", es)}, Parts: parts(g.kw("echo"), sepList(es, ","), t(";"))}
	}
	ex := e()
	return &Node{Kind: "StmtThrow", Kids: []Kid{one("Expr", ex)}, Parts: parts(g.kw("throw"), ex, t(";"))}
}

// useStmt generates an import statement and updates the model.
// segCount: how many segments a generated name gets — mostly 1..3, with a tail up to 9 (slices that grow by
// append change capacity at 1, 2, 4, 8).
func segCount(r *core.Rand, max int) int {
	if r.Chance(1, 6) {
		return r.Range(1, 9)
	}
	return r.Range(1, max)
}

func (x *NSGen) useStmt() *Node {
	r := x.r()
	typ := ""
	n := &Node{Kind: "StmtUseList"}
	n.Parts = parts(x.g.kw("use"))
	switch r.Intn(4) {
	case 0:
		typ = "function"
	case 1:
		typ = "const"
	}
	if typ != "" {
		tk := x.g.kw(typ)
		id := &Node{Kind: "Identifier", Val: tk.S, HasVal: true, Parts: []interface{}{tk}}
		n.Kids = append(n.Kids, one("Type", id))
		n.Parts = append(n.Parts, id)
	}
	one1 := func(prefix []string, memberType string) *Node {
		eff := typ
		if memberType != "" {
			eff = memberType
		}
		var segs []string
		for i, k := 0, segCount(r, 3); i < k; i++ {
			segs = append(segs, nsSegs[r.Intn(len(nsSegs))])
		}
		switch eff {
		case "function":
			segs[len(segs)-1] = nsFuncs[r.Intn(len(nsFuncs))]
		case "const":
			segs[len(segs)-1] = nsConsts[r.Intn(len(nsConsts))]
		}
		nm := x.nameNode(0, segs)
		u := &Node{Kind: "StmtUse", Kids: []Kid{one("Use", nm)}}
		if memberType != "" {
			tk := x.g.kw(memberType)
			id := &Node{Kind: "Identifier", Val: tk.S, HasVal: true, Parts: []interface{}{tk}}
			u.Kids = append(u.Kids, one("Type", id))
			u.Parts = append(u.Parts, id)
		}
		if prefix == nil && r.Chance(1, 5) {
			c := *nm
			c.Parts = glue(nm.Parts)
			u.Parts = append(u.Parts, t("\\"), &c)
		} else {
			u.Parts = append(u.Parts, nm)
		}
		alias := segs[len(segs)-1]
		if r.Chance(1, 3) {
			var pool []string
			switch eff {
			case "function":
				pool = nsFuncs
			case "const":
				pool = nsConsts
			default:
				pool = nsSegs
			}
			alias = pool[r.Intn(len(pool))]
			if r.Chance(1, 3) {
				alias = flipCase(r, alias)
			}
			al := x.g.identifier(alias)
			u.Kids = append(u.Kids, one("Alias", al))
			u.Parts = append(u.Parts, x.g.kw("as"), al)
		}
		full := strings.Join(append(append([]string{}, prefix...), segs...), "\\")
		switch eff {
		case "function":
			x.m.fn[strings.ToLower(alias)] = full
		case "const":
			x.m.cn[alias] = full
		default:
			x.m.cls[strings.ToLower(alias)] = full
		}
		x.Pos["import-"+eff]++
		return u
	}
	if x.g.O.Fam == 7 && r.Chance(1, 3) {
		n.Kind = "StmtGroupUseList"
		var pfx []string
		for i, k := 0, segCount(r, 3); i < k; i++ {
			pfx = append(pfx, nsSegs[r.Intn(len(nsSegs))])
		}
		pn := x.nameNode(0, pfx)
		if r.Chance(1, 4) {
			c := *pn
			c.Parts = glue(pn.Parts)
			n.Parts = append(n.Parts, t("\\"), &c)
		} else {
			n.Parts = append(n.Parts, pn)
		}
		n.Kids = append(n.Kids, one("Prefix", pn))
		n.Parts = append(n.Parts, tn("\\"), t("{"))
		var us []*Node
		for i, k := 0, r.Range(1, 4); i < k; i++ {
			mt := ""
			if typ == "" && r.Chance(1, 3) {
				mt = r.Pick("function", "const")
			}
			us = append(us, one1(pfx, mt))
		}
		n.Kids = append(n.Kids, list("Uses", us))
		n.Parts = append(n.Parts, sepList(us, ",")...)
		n.Parts = append(n.Parts, t("}"), t(";"))
		x.Pos["import-group"]++
		return n
	}
	var us []*Node
	for i, k := 0, r.Range(1, 2); i < k; i++ {
		us = append(us, one1(nil, ""))
	}
	n.Kids = append(n.Kids, list("Uses", us))
	n.Parts = append(n.Parts, parts(sepList(us, ","), t(";"))...)
	return n
}

func (x *NSGen) block(depth int) []*Node {
	var ss []*Node
	for i, k := 0, x.r().Intn(4); i < k; i++ {
		ss = append(ss, x.useStmt())
	}
	for i, k := 0, x.r().Range(1, 5); i < k; i++ {
		switch x.r().Intn(8) {
		case 0:
			ss = append(ss, x.constDecl())
		case 1:
			ss = append(ss, x.funcDecl(depth))
		case 2, 3:
			ss = append(ss, x.classLike())
		case 4:
			ss = append(ss, x.useStmt())
		default:
			ss = append(ss, x.stmts(depth, 1)...)
		}
	}
	return ss
}

func (x *NSGen) nsName() ([]string, *Node) {
	var segs []string
	for i, k := 0, segCount(x.r(), 3); i < k; i++ {
		segs = append(segs, nsSegs[x.r().Intn(len(nsSegs))])
	}
	return segs, x.nameNode(0, segs)
}

// NSProgram builds a namespace program and its expected resolution.
func NSProgram(r *core.Rand, fam int) (*Node, *NSGen) {
	g := NewG(r, Opts{Fam: fam, MaxDepth: 3})
	x := &NSGen{g: g, m: newNSModel(""), Pos: map[string]int{}}
	root := &Node{Kind: "Root"}
	var ss []*Node
	ps := []interface{}{tn("<?php"), tg("", GapNeedWS)}
	switch r.Intn(3) {
	case 0: // no namespace
		ss = x.block(1)
		ps = append(ps, nodesToParts(ss)...)
	case 1: // semicolon form, several namespaces
		if r.Chance(1, 3) {
			pre := x.block(1) // code before the first namespace declaration (global namespace)
			ss = append(ss, pre...)
			ps = append(ps, nodesToParts(pre)...)
		}
		for i, k := 0, r.Range(1, 3); i < k; i++ {
			segs, nm := x.nsName()
			x.m = newNSModel(strings.Join(segs, "\\"))
			n := &Node{Kind: "StmtNamespace", Kids: []Kid{one("Name", nm)}, Parts: parts(g.kw("namespace"), nm, t(";"))}
			ss = append(ss, n)
			ps = append(ps, n)
			b := x.block(1)
			ss = append(ss, b...)
			ps = append(ps, nodesToParts(b)...)
		}
	default: // braced form
		for i, k := 0, r.Range(1, 3); i < k; i++ {
			n := &Node{Kind: "StmtNamespace"}
			n.Parts = parts(g.kw("namespace"))
			if r.Chance(1, 4) {
				x.m = newNSModel("")
			} else {
				segs, nm := x.nsName()
				x.m = newNSModel(strings.Join(segs, "\\"))
				n.Kids = append(n.Kids, one("Name", nm))
				n.Parts = append(n.Parts, nm)
			}
			b := x.block(1)
			n.Kids = append(n.Kids, list("Stmts", b))
			n.Parts = append(n.Parts, parts(t("{"), nodesToParts(b), t("}"))...)
			ss = append(ss, n)
			ps = append(ps, n)
			x.m = newNSModel("")
		}
	}
	root.Kids = []Kid{list("Stmts", ss)}
	root.Parts = ps
	return root, x
}
