// Package obs holds the shared observers: reflection walker over pkg/ast trees,
// structure projection, full fingerprint, token collection, reference line
// counter, provenance writer, guarded input buffers and panic capture.
package obs

import (
	"fmt"
	"reflect"
	"sort"
	"strconv"
	"strings"
	"sync"

	"github.com/z7zmey/php-parser/pkg/ast"
	"github.com/z7zmey/php-parser/pkg/position"
	"github.com/z7zmey/php-parser/pkg/token"
)

type FieldKind int

const (
	FPos FieldKind = iota
	FTok
	FToks
	FNode
	FNodes
	FBytes
)

func (k FieldKind) String() string {
	return [...]string{"pos", "tok", "toks", "node", "nodes", "bytes"}[k]
}

type fieldInfo struct {
	Name  string
	Kind  FieldKind
	Index int
}

var (
	typPos    = reflect.TypeOf((*position.Position)(nil))
	typTok    = reflect.TypeOf((*token.Token)(nil))
	typToks   = reflect.TypeOf([]*token.Token(nil))
	typVertex = reflect.TypeOf((*ast.Vertex)(nil)).Elem()
	typNodes  = reflect.TypeOf([]ast.Vertex(nil))
	typBytes  = reflect.TypeOf([]byte(nil))

	layoutMu sync.RWMutex
	layouts  = map[reflect.Type][]fieldInfo{}
)

// Layout returns the exported fields of a node struct type in declaration order.
func Layout(t reflect.Type) []fieldInfo {
	layoutMu.RLock()
	l, ok := layouts[t]
	layoutMu.RUnlock()
	if ok {
		return l
	}
	var out []fieldInfo
	for i := 0; i < t.NumField(); i++ {
		f := t.Field(i)
		var k FieldKind
		switch f.Type {
		case typPos:
			k = FPos
		case typTok:
			k = FTok
		case typToks:
			k = FToks
		case typVertex:
			k = FNode
		case typNodes:
			k = FNodes
		case typBytes:
			k = FBytes
		default:
			panic(fmt.Sprintf("obs: node type %s has field %s of unsupported type %s — the harness walker must be extended", t.Name(), f.Name, f.Type))
		}
		out = append(out, fieldInfo{f.Name, k, i})
	}
	layoutMu.Lock()
	layouts[t] = out
	layoutMu.Unlock()
	return out
}

// Field is one field of a concrete node.
type Field struct {
	Name  string
	Kind  FieldKind
	Pos   *position.Position
	Tok   *token.Token
	Toks  []*token.Token
	Node  ast.Vertex
	Nodes []ast.Vertex
	Bytes []byte
	V     reflect.Value // addressable field value
}

// IsNil reports whether n is nil or a typed nil pointer.
func IsNil(n ast.Vertex) bool {
	if n == nil {
		return true
	}
	v := reflect.ValueOf(n)
	return v.Kind() == reflect.Ptr && v.IsNil()
}

// Kind is the node's type name, e.g. "StmtEcho".
func Kind(n ast.Vertex) string {
	if n == nil {
		return "nil"
	}
	t := reflect.TypeOf(n)
	if t.Kind() == reflect.Ptr {
		t = t.Elem()
	}
	return t.Name()
}

// Fields lists the fields of a node in struct order.
func Fields(n ast.Vertex) []Field {
	v := reflect.ValueOf(n)
	if v.Kind() != reflect.Ptr || v.IsNil() {
		return nil
	}
	e := v.Elem()
	lay := Layout(e.Type())
	out := make([]Field, len(lay))
	for i, fi := range lay {
		fv := e.Field(fi.Index)
		f := Field{Name: fi.Name, Kind: fi.Kind, V: fv}
		switch fi.Kind {
		case FPos:
			f.Pos = fv.Interface().(*position.Position)
		case FTok:
			f.Tok = fv.Interface().(*token.Token)
		case FToks:
			f.Toks = fv.Interface().([]*token.Token)
		case FNode:
			if !fv.IsNil() {
				f.Node = fv.Interface().(ast.Vertex)
				if IsNil(f.Node) {
					f.Node = nil
				}
			}
		case FNodes:
			f.Nodes = fv.Interface().([]ast.Vertex)
		case FBytes:
			f.Bytes = fv.Bytes()
		}
		out[i] = f
	}
	return out
}

// Visit is the callback of Walk. path is the role path from the root ("Stmts[0].Expr").
type Visit func(n ast.Vertex, parent ast.Vertex, role string, depth int) bool

// Walk visits nodes in pre-order following struct field order. A nil entry in a
// list is reported with n == nil.
func Walk(n ast.Vertex, fn Visit) {
	walk(n, nil, "", 0, fn)
}

func walk(n, parent ast.Vertex, role string, depth int, fn Visit) {
	if IsNil(n) {
		return
	}
	if !fn(n, parent, role, depth) {
		return
	}
	for _, f := range Fields(n) {
		switch f.Kind {
		case FNode:
			walk(f.Node, n, f.Name, depth+1, fn)
		case FNodes:
			for _, c := range f.Nodes {
				walk(c, n, f.Name, depth+1, fn)
			}
		}
	}
}

// Children lists the direct child nodes in field order (nil entries skipped).
func Children(n ast.Vertex) []ast.Vertex {
	var out []ast.Vertex
	for _, f := range Fields(n) {
		switch f.Kind {
		case FNode:
			if f.Node != nil {
				out = append(out, f.Node)
			}
		case FNodes:
			for _, c := range f.Nodes {
				if !IsNil(c) {
					out = append(out, c)
				}
			}
		}
	}
	return out
}

// Structure is the projection used by C03/C08/C17: kinds, roles, order and Value
// bytes; no tokens, no positions.
func Structure(n ast.Vertex) string {
	var sb strings.Builder
	structure(&sb, n)
	return sb.String()
}

func structure(sb *strings.Builder, n ast.Vertex) {
	if IsNil(n) {
		sb.WriteString("nil")
		return
	}
	sb.WriteByte('(')
	sb.WriteString(Kind(n))
	for _, f := range Fields(n) {
		switch f.Kind {
		case FNode:
			if f.Node != nil {
				sb.WriteByte(' ')
				sb.WriteString(f.Name)
				sb.WriteByte(':')
				structure(sb, f.Node)
			}
		case FNodes:
			if len(f.Nodes) > 0 {
				sb.WriteByte(' ')
				sb.WriteString(f.Name)
				sb.WriteString(":[")
				for i, c := range f.Nodes {
					if i > 0 {
						sb.WriteByte(' ')
					}
					structure(sb, c)
				}
				sb.WriteByte(']')
			}
		case FBytes:
			sb.WriteByte(' ')
			sb.WriteString(f.Name)
			sb.WriteByte(':')
			fmt.Fprintf(sb, "%q", f.Bytes)
		}
	}
	sb.WriteByte(')')
}

// TokRef is a token with its owner.
type TokRef struct {
	Tok   *token.Token
	Owner ast.Vertex
	Slot  string
	FF    bool // free-floating token of the token in Slot
}

// Tokens collects all tokens reachable from the tree in depth-first field order,
// the free-floating tokens of a token immediately before it.
func Tokens(root ast.Vertex) []TokRef {
	var out []TokRef
	var rec func(n ast.Vertex)
	add := func(n ast.Vertex, slot string, t *token.Token) {
		if t == nil {
			return
		}
		for _, ff := range t.FreeFloating {
			out = append(out, TokRef{ff, n, slot, true})
		}
		out = append(out, TokRef{t, n, slot, false})
	}
	rec = func(n ast.Vertex) {
		if IsNil(n) {
			return
		}
		for _, f := range Fields(n) {
			switch f.Kind {
			case FTok:
				add(n, f.Name, f.Tok)
			case FToks:
				for _, t := range f.Toks {
					add(n, f.Name, t)
				}
			case FNode:
				rec(f.Node)
			case FNodes:
				for _, c := range f.Nodes {
					rec(c)
				}
			}
		}
	}
	rec(root)
	return out
}

// SourceOrderTokens collects tokens in the order the printer's contract implies:
// fields in declaration order, but separator token lists interleaved with the
// list they separate (the list field that precedes them).
func SourceOrderTokens(root ast.Vertex) []TokRef {
	var out []TokRef
	var rec func(n ast.Vertex)
	add := func(n ast.Vertex, slot string, t *token.Token) {
		if t == nil {
			return
		}
		for _, ff := range t.FreeFloating {
			out = append(out, TokRef{ff, n, slot, true})
		}
		out = append(out, TokRef{t, n, slot, false})
	}
	rec = func(n ast.Vertex) {
		if IsNil(n) {
			return
		}
		fs := Fields(n)
		for i := 0; i < len(fs); i++ {
			f := fs[i]
			switch f.Kind {
			case FTok:
				add(n, f.Name, f.Tok)
			case FToks:
				for _, t := range f.Toks {
					add(n, f.Name, t)
				}
			case FNode:
				rec(f.Node)
			case FNodes:
				if i+1 < len(fs) && fs[i+1].Kind == FToks {
					seps := fs[i+1].Toks
					for k, c := range f.Nodes {
						rec(c)
						if k < len(seps) {
							add(n, fs[i+1].Name, seps[k])
						}
					}
					for k := len(f.Nodes); k < len(seps); k++ {
						add(n, fs[i+1].Name, seps[k])
					}
					i++
				} else {
					for _, c := range f.Nodes {
						rec(c)
					}
				}
			}
		}
	}
	rec(root)
	return out
}

// StructureCanon is Structure with the roles of each node sorted by name (the
// canonical form shared with the program generator's expected trees).
func StructureCanon(n ast.Vertex) string {
	var sb strings.Builder
	structureCanon(&sb, n)
	return sb.String()
}

// FlagKinds: node kinds whose by-reference / variadic / static marker is a token (shared with the generator).
var FlagKinds = map[string]bool{"Argument": true, "ExprArrayItem": true, "ExprArrowFunction": true, "ExprClosure": true, "ExprClosureUse": true,
	"Parameter": true, "StmtClassMethod": true, "StmtForeach": true, "StmtFunction": true}

func structureCanon(sb *strings.Builder, n ast.Vertex) {
	if IsNil(n) {
		sb.WriteString("nil")
		return
	}
	sb.WriteByte('(')
	sb.WriteString(Kind(n))
	fs := Fields(n)
	if FlagKinds[Kind(n)] {
		// by-reference, variadic/spread and static are tokens in this AST, but they are part of what the construct IS
		var fl []string
		for _, f := range fs {
			if f.Kind == FTok && f.Tok != nil {
				switch f.Name {
				case "AmpersandTkn":
					fl = append(fl, "&")
				case "VariadicTkn", "EllipsisTkn":
					fl = append(fl, "...")
				case "StaticTkn":
					fl = append(fl, "static")
				}
			}
		}
		if len(fl) > 0 {
			sort.Strings(fl)
			sb.WriteString("#" + strings.Join(fl, ","))
		}
	}
	idx := make([]int, 0, len(fs))
	for i, f := range fs {
		switch f.Kind {
		case FNode:
			if f.Node != nil {
				idx = append(idx, i)
			}
		case FNodes:
			if len(f.Nodes) > 0 {
				idx = append(idx, i)
			}
		case FBytes:
			idx = append(idx, i)
		}
	}
	sort.SliceStable(idx, func(a, b int) bool { return fs[idx[a]].Name < fs[idx[b]].Name })
	for _, i := range idx {
		f := fs[i]
		sb.WriteByte(' ')
		sb.WriteString(f.Name)
		sb.WriteByte(':')
		switch f.Kind {
		case FNode:
			structureCanon(sb, f.Node)
		case FNodes:
			sb.WriteByte('[')
			for k, c := range f.Nodes {
				if k > 0 {
					sb.WriteByte(' ')
				}
				structureCanon(sb, c)
			}
			sb.WriteByte(']')
		case FBytes:
			sb.WriteString(strconv.Quote(string(f.Bytes)))
		}
	}
	sb.WriteByte(')')
}
