#!/usr/bin/env python3
"""Applies every seeded change (or the named ones) to /repo, runs the quick check of its property
(plus meta.also_check), records the outcome in meta.json, and reverts /repo. usage: runseeds.py [--tier T] [name...]"""
import json, os, subprocess, sys, glob
V = "/verif"
args = sys.argv[1:]
tier = "quick"
if args[:1] == ["--tier"]:
    tier = args[1]; args = args[2:]
names = args or sorted(os.path.basename(os.path.dirname(p)) for p in glob.glob(V + "/seeded/*/meta.json"))
if subprocess.check_output(["git", "-C", "/repo", "status", "--porcelain"]).strip():
    sys.exit("/repo not clean")
for n in names:
    d = os.path.join(V, "seeded", n)
    meta = json.load(open(d + "/meta.json"))
    ids = [meta["property"]] + meta.get("also_check", [])
    if subprocess.call(["git", "-C", "/repo", "apply", d + "/patch.diff"]) != 0:
        print(n, "PATCH DOES NOT APPLY"); continue
    try:
        for cid in ids:
            p = subprocess.run(["./check", cid, "--tier", tier], cwd=V, capture_output=True, text=True, errors="replace", timeout=3600)
            viol = [l for l in p.stdout.split("\n") if l.startswith("VIOLATION ")]
            sigs = []
            for l in viol[:3]:
                try:
                    sigs.append(json.load(open(l.split("replay=")[1]))["signature"])
                except Exception:
                    pass
            det = p.returncode == 1 and len(viol) > 0
            meta.setdefault("detected_by", {})[cid + "/" + tier] = {"detected": det, "exit": p.returncode, "violation_lines": len(viol), "first_signatures": sigs}
            print("%-40s %s %-8s %s exit=%d violations=%d %s" % (n, cid, tier, "DETECTED" if det else "MISSED", p.returncode, len(viol), sigs[:1]))
    finally:
        subprocess.call(["git", "-C", "/repo", "checkout", "--", "."])
        subprocess.call(["git", "-C", "/repo", "clean", "-fdq"])
    json.dump(meta, open(d + "/meta.json", "w"), indent=1)
subprocess.call(["rm", "-rf", V + "/replay"])
