package mon

import (
	"bytes"
	"fmt"

	"verif/harness/core"
	"verif/harness/obs"

	"github.com/z7zmey/php-parser/pkg/ast"
	"github.com/z7zmey/php-parser/pkg/token"
)

// Token monitor (C04). It is applied to every tree a parse returns.
//
// Always (any returned tree): every token and free-floating token has a position,
// 0 <= start <= end <= len(src), Value == src[start:end], start/end lines equal the
// reference line of start / end-1 (LF, CRLF and lone CR each end one line), and in
// tree order (separators interleaved with their list) no token starts before the
// previous one ended.
// Additionally when no error was delivered: the tokens tile [0,len(src)) exactly
// (which also makes every free-floating run contiguous with its owner), free-floating
// ids are of the documented classes and consistent with their text, and leaf values
// equal their token's text.

type tokStats struct {
	Tokens, FF int
	Lines      int
	Tiled      bool
}

func tokSlot(t obs.TokRef) string {
	s := obs.Kind(t.Owner) + "." + t.Slot
	if t.FF {
		s += "|ff"
	}
	return s
}

func isBlank(b []byte) bool {
	for _, c := range b {
		if c != ' ' && c != '\t' && c != '\n' && c != '\r' && c != '\v' && c != '\f' { // the scanner's whitespace class includes VT and FF
			return false
		}
	}
	return true
}

// ffClassOK tells whether a free-floating id is consistent with its text.
func ffClassOK(id token.ID, v []byte) (bool, string) {
	switch id {
	case token.T_WHITESPACE:
		if len(v) == 0 || !isBlank(v) {
			return false, "whitespace token holds non-blank text"
		}
		return true, ""
	case token.T_COMMENT:
		switch {
		case bytes.HasPrefix(v, []byte("//")), bytes.HasPrefix(v, []byte("#")):
			return true, ""
		case bytes.HasPrefix(v, []byte("/*")):
			// "/**" followed by a blank is a doc comment in PHP; other "/**" spellings are ambiguous
			if len(v) > 3 && bytes.HasPrefix(v, []byte("/**")) && (v[3] == ' ' || v[3] == '\t' || v[3] == '\n' || v[3] == '\r') {
				return false, "'/**'+blank classified as plain comment"
			}
			return true, ""
		}
		return false, "comment token does not start with //, # or /*"
	case token.T_DOC_COMMENT:
		if !bytes.HasPrefix(v, []byte("/**")) || len(v) < 5 {
			return false, "doc-comment token does not start with /**"
		}
		return true, ""
	case token.T_OPEN_TAG:
		if bytes.EqualFold(v, []byte("<?php")) || bytes.Equal(v, []byte("<?")) {
			return true, ""
		}
		return false, "open-tag token holds other text"
	case token.T_HALT_COMPILER:
		return true, ""
	}
	return false, "free-floating id outside {whitespace, comment, doc comment, open tag, halt-compiler tail}"
}

// leafTokens: leaf kind -> token slot whose text must equal Value.
var leafTokens = map[string]string{
	"Identifier": "IdentifierTkn", "ScalarDnumber": "NumberTkn", "ScalarEncapsedStringPart": "EncapsedStrTkn", "ScalarLnumber": "NumberTkn",
	"ScalarMagicConstant": "MagicConstTkn", "ScalarString": "StringTkn", "StmtInlineHtml": "InlineHtmlTkn", "NamePart": "StringTkn",
}

// checkTokens runs the token monitor. errFree selects the strict (tiling) part.
func checkTokens(c *core.Ctx, root ast.Vertex, src []byte, ver string, errFree bool) tokStats {
	w := core.W(src, ver)
	fam := fmt.Sprintf("fam%d", obs.Fam(ver))
	lines := obs.NewLines(src)
	toks := obs.SourceOrderTokens(root)
	st := tokStats{Lines: lines.Line(len(src))}
	prevEnd := 0
	var prev obs.TokRef
	tiled := true
	seen := map[*token.Token]string{}
	for i, t := range toks {
		slot := tokSlot(t)
		if t.FF {
			st.FF++
		} else {
			st.Tokens++
		}
		if where, dup := seen[t.Tok]; dup {
			c.Violation("tok|shared-object|"+slot+"|"+fam, fmt.Sprintf("token object %p is referenced twice (%s and %s)", t.Tok, where, slot), w)
			return st
		}
		seen[t.Tok] = slot
		p := t.Tok.Position
		if p == nil && !t.FF && obs.Kind(t.Owner) == "Root" && t.Slot == "EndTkn" && len(t.Tok.Value) == 0 {
			// the end-of-input token records no offsets and no text: it makes no claim (its free-floating tokens do)
			st.Tokens--
			continue
		}
		if p == nil {
			c.Violation("tok|nil-position|"+slot+"|"+fam, fmt.Sprintf("token #%d %q in %s has no position", i, t.Tok.Value, slot), w)
			return st
		}
		if p.StartPos < 0 || p.EndPos < p.StartPos || p.EndPos > len(src) {
			c.Violation("tok|range|"+slot+"|"+fam, fmt.Sprintf("token #%d in %s has offsets %d..%d outside 0..%d", i, slot, p.StartPos, p.EndPos, len(src)), w)
			return st
		}
		if !bytes.Equal(t.Tok.Value, src[p.StartPos:p.EndPos]) {
			c.Violation("tok|value|"+slot+"|"+fam, fmt.Sprintf("token #%d in %s holds %q but the source at %d..%d is %q", i, slot, t.Tok.Value, p.StartPos, p.EndPos, src[p.StartPos:p.EndPos]), w)
			return st
		}
		if want := lines.Line(p.StartPos); p.StartLine != want {
			c.Violation("tok|startline|"+slot+"|"+fam, fmt.Sprintf("token #%d %q at offset %d has StartLine %d, the reference line is %d", i, t.Tok.Value, p.StartPos, p.StartLine, want), w)
			return st
		}
		if p.EndPos > p.StartPos {
			if want := lines.Line(p.EndPos - 1); p.EndLine != want {
				c.Violation("tok|endline|"+slot+"|"+fam, fmt.Sprintf("token #%d %q ending at offset %d has EndLine %d, the reference line is %d", i, t.Tok.Value, p.EndPos, p.EndLine, want), w)
				return st
			}
		} else {
			// zero-width token: its end line may be that of the byte before or at it
			a, b := lines.Line(p.EndPos), p.EndLine
			lo := a
			if p.EndPos > 0 {
				lo = lines.Line(p.EndPos - 1)
			}
			if b != a && b != lo {
				c.Violation("tok|endline|"+slot+"|zero-width|"+fam, fmt.Sprintf("zero-width token at %d has EndLine %d, reference %d or %d", p.EndPos, b, lo, a), w)
				return st
			}
		}
		if p.StartPos < prevEnd {
			c.Violation("tok|order|"+tokSlot(prev)+">"+slot+"|"+fam, fmt.Sprintf("token #%d %q (%s) starts at %d, before the previous token in tree order (%s) ended at %d", i, t.Tok.Value, slot, p.StartPos, tokSlot(prev), prevEnd), w)
			return st
		}
		if p.StartPos > prevEnd {
			tiled = false
			if errFree {
				extra := ""
				gapTxt := bytes.TrimLeft(src[prevEnd:p.StartPos], " \t")
				if prev.Tok != nil && prev.Slot == "OpenHeredocTkn" && t.Slot == "CloseHeredocTkn" && len(gapTxt) == 1 &&
					bytes.Contains(prev.Tok.Value, append(append([]byte(nil), gapTxt...), t.Tok.Value...)) {
					extra = "|first-byte-of-closing-label"
				}
				c.Violation("tok|gap|"+tokSlot(prev)+">"+slot+extra+"|"+fam, fmt.Sprintf("source bytes %d..%d %q are covered by no token (between %s and %s) although no error was reported", prevEnd, p.StartPos, src[prevEnd:p.StartPos], tokSlot(prev), slot), w)
				return st
			}
		}
		if t.FF {
			c.Cover("free_floating_ids", t.Tok.ID.String())
			if errFree {
				if ok, why := ffClassOK(t.Tok.ID, t.Tok.Value); !ok {
					c.Violation("tok|ffclass|"+t.Tok.ID.String()+"|"+fam, fmt.Sprintf("free-floating token %q (%s) in %s: %s", t.Tok.Value, t.Tok.ID, slot, why), w)
					return st
				}
			}
		} else {
			c.Cover("token_ids", t.Tok.ID.String())
			// whitespace belongs to free-floating tokens: a significant token neither starts nor ends with a
			// blank, except the token kinds whose text legitimately does (string/HTML content, heredoc
			// opener incl. its line end, close tag incl. the line end it swallows)
			if errFree && len(t.Tok.Value) > 0 {
				v := t.Tok.Value
				if isBlank(v[:1]) || isBlank(v[len(v)-1:]) {
					switch t.Tok.ID {
					case token.T_INLINE_HTML, token.T_ENCAPSED_AND_WHITESPACE, token.T_START_HEREDOC, token.T_CONSTANT_ENCAPSED_STRING:
					default:
						if !(t.Tok.ID == token.ID(';') && bytes.Contains(v, []byte("?>"))) {
							c.Violation("tok|blank-in-significant-token|"+t.Tok.ID.String()+"|"+fam, fmt.Sprintf("significant token %q (%s) in %s starts or ends with whitespace that should be a free-floating token", v, t.Tok.ID, slot), w)
							return st
						}
					}
				}
			}
		}
		prevEnd, prev = p.EndPos, t
	}
	if prevEnd != len(src) {
		tiled = false
		if errFree {
			c.Violation("tok|gap|tail|"+fam, fmt.Sprintf("source bytes %d..%d %q after the last token are covered by no token although no error was reported", prevEnd, len(src), src[prevEnd:]), w)
			return st
		}
	}
	st.Tiled = tiled
	if errFree {
		obs.Walk(root, func(n, _ ast.Vertex, _ string, _ int) bool {
			slot, ok := leafTokens[obs.Kind(n)]
			if !ok {
				return true
			}
			var val []byte
			var tk *token.Token
			var minus *token.Token
			for _, f := range obs.Fields(n) {
				switch {
				case f.Kind == obs.FBytes && f.Name == "Value":
					val = f.Bytes
				case f.Kind == obs.FTok && f.Name == slot:
					tk = f.Tok
				case f.Kind == obs.FTok && f.Name == "MinusTkn":
					minus = f.Tok
				}
			}
			if tk == nil {
				c.Violation("tok|leafvalue|"+obs.Kind(n)+"|no-token|"+fam, fmt.Sprintf("leaf %s with value %q has no %s", obs.Kind(n), val, slot), w)
				return false
			}
			want := tk.Value
			if minus != nil { // documented exception: '-' number offset inside strings
				want = append(append([]byte(nil), minus.Value...), tk.Value...)
			}
			if !bytes.Equal(val, want) {
				c.Violation("tok|leafvalue|"+obs.Kind(n)+"|"+fam, fmt.Sprintf("leaf %s holds value %q but its token text is %q", obs.Kind(n), val, want), w)
				return false
			}
			c.Add("leaf_values_checked", 1)
			return true
		})
	}
	return st
}
