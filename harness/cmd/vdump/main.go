// vdump prints the structure projection (kinds, roles, values) of a source under a version.
package main

import (
	"fmt"
	"os"

	"verif/harness/obs"
)

func main() {
	ver := os.Args[1]
	for _, s := range os.Args[2:] {
		pr := obs.Parse([]byte(s), ver, true)
		fmt.Printf("%q\n  errors=%v panic=%v\n  %s\n", s, obs.ErrStrings(pr.Errors), pr.Panic != nil, obs.Structure(pr.Root))
	}
}
