package mon

import (
	"fmt"
	"math"
	"regexp"
	"strconv"
	"strings"

	"verif/harness/core"
	"verif/harness/gen"
	"verif/harness/obs"

	"github.com/z7zmey/php-parser/pkg/conf"
	"github.com/z7zmey/php-parser/pkg/errors"
	"github.com/z7zmey/php-parser/pkg/parser"
	"github.com/z7zmey/php-parser/pkg/version"
)

// C09 — version selection is exact and only matters where the languages differ.
//
// Case space: [grid cells] ++ [version strings] ++ [inputs].
//   grid cell (major, minor): Validate / Parse acceptance vs the reference set
//     {5.0..5.6, 7.0..7.4}; error value and nil tree outside; Compare & friends vs
//     numeric tuple order against every other grid version (antisymmetry included).
//   version string: version.New vs reference parse of digits '.' digits.
//   input: all versions of one class must give identical trees (full fingerprint),
//     errors and panics; nil version must equal 7.4.

var c09Seg = []uint64{0, 1, 2, 3, 4, 5, 6, 7, 8, 9, 10, 11, 12, 73, 74, 1 << 31, 1<<32 - 1, 1 << 32, 1<<32 + 3, 1<<32 + 4, 1<<32 + 7, 5 << 32, 7<<32 + 2, 1 << 63, 1<<63 + 5, math.MaxUint64 - 1, math.MaxUint64}

func c09InRange(maj, min uint64) bool {
	return (maj == 5 && min <= 6) || (maj == 7 && min <= 4)
}

func c09Cmp(a, b [2]uint64) int {
	for i := 0; i < 2; i++ {
		if a[i] < b[i] {
			return -1
		}
		if a[i] > b[i] {
			return 1
		}
	}
	return 0
}

var c09Strings = []string{
	"7.4", "5.6", "7.0", "5.0", "7.10", "7.9", "07.04", "007.4", "7.04", "0.0", "10.0", "18446744073709551615.18446744073709551615", "18446744073709551616.0", "7.18446744073709551616",
	"4294967296.4294967296", "6.4294967296", "4.4294967299", "", "7", "7.", ".4", ".", "..", "7..4", "7.4.1", "7.4.", " 7.4", "7.4 ", "7 .4", "7. 4", "+7.4", "7.+4", "-7.4", "7.-4", "7,4", "7.4a", "a.b", "v7.4", "7.4\n", "0x7.4", "7.0x4", "7_0.4", "1e1.0", "７.４", "7.4.0.0", "\x007.4", "5.6", "5.7", "7.5", "8.0", "6.0", "4.9",
}

var c09WellFormed = regexp.MustCompile(`^[0-9]+\.[0-9]+$`)

func c09RefNew(s string) (maj, min uint64, ok bool) {
	if !c09WellFormed.MatchString(s) {
		return 0, 0, false
	}
	p := strings.SplitN(s, ".", 2)
	a, e1 := strconv.ParseUint(p[0], 10, 64)
	b, e2 := strconv.ParseUint(p[1], 10, 64)
	if e1 != nil || e2 != nil {
		return 0, 0, false
	}
	return a, b, true
}

func c09Inputs(p core.Params) int { return p.Pick(12000, 400000) }

var c09Probe = []byte("<?php echo <<<A\n  x\n  A;\n")

// c09Probes: the inputs of the acceptance grid (nil = a nil slice)
var c09Probes = [][]byte{c09Probe, []byte(""), nil, []byte("x"), []byte("<?php"), []byte("\n"), []byte("<?php $a = ;"), []byte("#!/bin/php\n")}

func init() {
	nGrid := len(c09Seg) * len(c09Seg)
	core.Register(&core.Check{
		ID:   "C09",
		Rule: "cases = full (major,minor) grid over " + fmt.Sprint(len(c09Seg)) + " segment values incl. 0..12, 2^31, k*2^32+small, 2^63, 2^64-1 (Validate/Parse acceptance, error value, order relations against every grid version) ++ curated and PRNG version strings (version.New vs reference) ++ hostile/valid inputs parsed under every version of each class {5.0-5.6},{7.0-7.2},{7.3,7.4} and with a nil version; non-trivial = grid cell or string exercised, or input whose tree has at least 2 nodes or that delivered an error; distinct by cell / string / input bytes",
		Assumptions: []string{
			"reference version set {5.0..5.6, 7.0..7.4} and numeric tuple order are taken from the property text",
			"version.New is specified as: digits '.' digits with both parts fitting uint64; anything else must yield an error",
		},
		Plan:       func(p core.Params) int { return nGrid + len(c09Strings) + p.Pick(400, 4000) + c09Inputs(p) },
		Exhaustive: func(p core.Params) bool { return false },
		Run: func(c *core.Ctx, idx int) {
			nStr := len(c09Strings) + c.P.Pick(400, 4000)
			switch {
			case idx < nGrid:
				c09Grid(c, c09Seg[idx/len(c09Seg)], c09Seg[idx%len(c09Seg)])
			case idx < nGrid+nStr:
				k := idx - nGrid
				var s string
				if k < len(c09Strings) {
					s = c09Strings[k]
				} else {
					r := core.NewRand(c.P.Seed, "C09str", k)
					n := r.Range(0, 6)
					for i := 0; i < n; i++ {
						s += r.Pick("7", "5", "0", "1", "9", ".", ".", "4", "6", "10", " ", "+", "-", "a", "18446744073709551615", "18446744073709551616", "4294967296")
					}
				}
				c09String(c, s)
			default:
				r := core.NewRand(c.P.Seed, "C09in", idx)
				_ = r
				c09Input(c, genParseCase(c.P.Seed, "C09gen", idx, 50).Src)
			}
		},
		RunWitness: func(c *core.Ctx, w core.Witness) { c09Input(c, w.Src) },
	})
}

func c09Grid(c *core.Ctx, maj, min uint64) {
	w := core.Witness{Ver: fmt.Sprintf("%d.%d", maj, min)}
	want := c09InRange(maj, min)
	v := &version.Version{Major: maj, Minor: min}
	var verr error
	if p := obs.Try(func() { verr = v.Validate() }); p != nil {
		c.Violation(p.Sig, "Validate panicked: "+p.Msg, w)
		return
	}
	if (verr == nil) != want {
		c.Violation("version|validate|"+fmt.Sprint(want), fmt.Sprintf("Validate() of %d.%d returned %v, reference says supported=%v", maj, min, verr, want), w)
	}
	if verr != nil && verr != version.ErrUnsupportedVer {
		c.Violation("version|validate|error-value", fmt.Sprintf("Validate() returned %v instead of ErrUnsupportedVer", verr), w)
	}
	// acceptance is a matter of the version alone: the same verdict for every input, incl. the empty and the nil one
	for pi := 0; pi < 2*len(c09Probes); pi++ {
		cb := pi%2 == 0
		probe := c09Probes[pi/2]
		var r obs.ParseResult
		cfg := conf.Config{Version: &version.Version{Major: maj, Minor: min}}
		if cb {
			cfg.ErrorHandlerFunc = func(*errors.Error) {}
		}
		var in []byte
		if probe != nil {
			in = append([]byte{}, probe...)
		}
		c.Add("grid_parse_calls", 1)
		r.Panic = obs.Try(func() { r.Root, r.Err = parser.Parse(in, cfg) })
		if r.Panic != nil {
			c.Violation(r.Panic.Sig, "Parse panicked: "+r.Panic.Msg, w)
			continue
		}
		if want {
			if r.Err != nil || obs.IsNil(r.Root) {
				c.Violation("version|parse|rejects-supported", fmt.Sprintf("Parse under supported %d.%d returned err=%v root-nil=%v", maj, min, r.Err, obs.IsNil(r.Root)), w)
			}
		} else {
			if r.Err == nil {
				c.Violation("version|parse|accepts-unsupported", fmt.Sprintf("Parse accepted unsupported version %d.%d", maj, min), w)
			} else if r.Err != parser.ErrVersionOutOfRange {
				c.Violation("version|parse|error-value", fmt.Sprintf("Parse under %d.%d returned error %v instead of ErrVersionOutOfRange", maj, min, r.Err), w)
			}
			if !obs.IsNil(r.Root) {
				c.Violation("version|parse|tree-with-error", fmt.Sprintf("Parse under unsupported %d.%d returned a tree together with the error", maj, min), w)
			}
		}
		if (r.Err == nil) != (verr == nil) {
			c.Violation("version|parse-vs-validate", fmt.Sprintf("Parse (err=%v) and Validate (err=%v) disagree on %d.%d", r.Err, verr, maj, min), w)
		}
		if cfg.Version.Major != maj || cfg.Version.Minor != min {
			c.Violation("version|mutated", "Parse changed the caller's Version value", w)
		}
	}
	// order relations against every grid version
	a := [2]uint64{maj, min}
	for _, m2 := range c09Seg {
		for _, n2 := range c09Seg {
			o := &version.Version{Major: m2, Minor: n2}
			ref := c09Cmp(a, [2]uint64{m2, n2})
			bad := ""
			if p := obs.Try(func() {
				switch {
				case v.Compare(o) != ref:
					bad = fmt.Sprintf("Compare=%d want %d", v.Compare(o), ref)
				case o.Compare(v) != -ref:
					bad = "Compare not antisymmetric"
				case v.Less(o) != (ref < 0):
					bad = "Less"
				case v.LessOrEqual(o) != (ref <= 0):
					bad = "LessOrEqual"
				case v.Greater(o) != (ref > 0):
					bad = "Greater"
				case v.GreaterOrEqual(o) != (ref >= 0):
					bad = "GreaterOrEqual"
				}
				// InRange(s,e) against a third version
				e := &version.Version{Major: n2, Minor: m2}
				refIn := ref >= 0 && c09Cmp(a, [2]uint64{n2, m2}) <= 0
				if bad == "" && v.InRange(o, e) != refIn {
					bad = fmt.Sprintf("InRange(%d.%d, %d.%d)", m2, n2, n2, m2)
				}
			}); p != nil {
				c.Violation(p.Sig, "order relation panicked: "+p.Msg, w)
				return
			}
			c.Add("order_relation_pairs", 1)
			if bad != "" {
				c.Violation("version|order|"+strings.SplitN(bad, "=", 2)[0], fmt.Sprintf("%d.%d vs %d.%d: %s disagrees with numeric tuple order", maj, min, m2, n2, bad), w)
				return
			}
		}
	}
	c.Cover("grid_supported", fmt.Sprint(want))
	c.NonTrivial([]byte("grid"), []byte(w.Ver))
	if want && c.WantSample() {
		c.Sample(map[string]interface{}{"grid_cell": w.Ver, "supported": want, "validate_error": fmt.Sprint(verr)})
	}
}

func c09String(c *core.Ctx, s string) {
	w := core.Witness{Cfg: map[string]string{"version_string": strconv.Quote(s)}}
	var v *version.Version
	var err error
	if p := obs.Try(func() { v, err = version.New(s) }); p != nil {
		c.Violation(p.Sig, "version.New panicked: "+p.Msg, w)
		return
	}
	maj, min, ok := c09RefNew(s)
	switch {
	case ok && (err != nil || v == nil):
		c.Violation("version-new|rejects-wellformed", fmt.Sprintf("version.New(%q) returned error %v", s, err), w)
	case ok && (v.Major != maj || v.Minor != min):
		c.Violation("version-new|wrong-value", fmt.Sprintf("version.New(%q) = %d.%d, want %d.%d", s, v.Major, v.Minor, maj, min), w)
	case !ok && err == nil:
		c.Violation("version-new|accepts-malformed", fmt.Sprintf("version.New(%q) returned %+v and no error", s, v), w)
	}
	if ok && err == nil && v != nil {
		// the value handed out belongs to the caller: editing it must not change what the string parses to later
		v.Major, v.Minor = v.Major+7, v.Minor+3
		v2, err2 := version.New(s)
		if err2 != nil || v2 == nil || v2.Major != maj || v2.Minor != min {
			c.Violation("version-new|second-call-differs", fmt.Sprintf("version.New(%q) was %d.%d; after the caller changed the fields of that value a second version.New(%q) gives %+v (err %v)", s, maj, min, s, v2, err2), w)
		}
		c.Add("version_strings_parsed_again_after_editing_the_first_value", 1)
	}
	c.Cover("version_string_wellformed", fmt.Sprint(ok))
	c.NonTrivial([]byte("str"), []byte(s))
	if c.WantSample() && ok {
		c.Sample(map[string]interface{}{"version_string": s, "major": maj, "minor": min})
	}
}

type c09Out struct {
	fp   string
	errs string
	pan  string
}

func c09Parse(src []byte, ver string) c09Out {
	r := obs.Parse(append([]byte(nil), src...), ver, true)
	o := c09Out{}
	if r.Panic != nil {
		o.pan = r.Panic.Sig
		return o
	}
	if r.Err != nil {
		o.pan = "error:" + r.Err.Error()
	}
	o.fp = obs.Fingerprint(r.Root, false)
	o.errs = strings.Join(obs.ErrStrings(r.Errors), "\n")
	return o
}

func c09Input(c *core.Ctx, src []byte) {
	c.Inflight(src, "C09 input")
	nodes := 0
	for ci, class := range gen.VersionClasses {
		base := c09Parse(src, class[0])
		for _, ver := range class[1:] {
			o := c09Parse(src, ver)
			c.Add("version_pairs_compared", 1)
			if o != base {
				what := "trees differ: " + obs.FirstDiff(base.fp, o.fp)
				if base.pan != o.pan {
					what = fmt.Sprintf("panic/error differs: %q vs %q", base.pan, o.pan)
				} else if base.errs != o.errs {
					what = "errors differ: " + obs.FirstDiff(base.errs, o.errs)
				}
				c.Violation(fmt.Sprintf("version|class%d|differs", ci), fmt.Sprintf("%s and %s give different results: %s", class[0], ver, what), core.W(src, ver))
				break
			}
		}
		if ci == 2 {
			n := c09Parse(src, "")
			if n != c09Parse(src, "7.4") {
				c.Violation("version|nil-not-7.4", "omitted version differs from 7.4", core.W(src, ""))
			}
			nodes = strings.Count(base.fp, "(")
			if nodes >= 2 || base.errs != "" {
				c.NonTrivial([]byte("in"), src)
			}
		}
	}
	// one unsupported version per input: the out-of-range error and no tree, whatever the input is
	bad := []string{"5.7", "7.5", "8.0", "4.4", "6.0", "0.0", "7.10", "5.10", "70.4", "4294967303.4"}[int(core.Hash64(src)%10)]
	for _, cb := range []bool{true, false} {
		r := obs.Parse(append([]byte(nil), src...), bad, cb)
		c.Add("unsupported_version_parses", 1)
		if r.Panic != nil {
			c.Violation(r.Panic.Sig, "Parse under an unsupported version panicked: "+r.Panic.Msg, core.W(src, bad))
		} else if r.Err != parser.ErrVersionOutOfRange || !obs.IsNil(r.Root) || len(r.Errors) > 0 {
			c.Violation("version|parse|unsupported-version-on-input", fmt.Sprintf("Parse under unsupported %s returned err=%v root-nil=%v and delivered %d errors to the callback", bad, r.Err, obs.IsNil(r.Root), len(r.Errors)), core.W(src, bad))
		}
	}
	c.Add("inputs", 1)
	if c.WantSample() && nodes > 3 {
		c.Sample(map[string]interface{}{"input": obsQuote(src, 200), "nodes": nodes})
	}
}

func obsQuote(b []byte, n int) string {
	s := strconv.Quote(string(b))
	if len(s) > n {
		return s[:n] + "…"
	}
	return s
}
