#!/bin/bash
# Development aid (not a registered check): measures which blocks of the library the workload of a check executes.
# usage: tools/cover.sh <outdir> <ID>...      -> <outdir>/<ID>.txt (go cover profile restricted to the library)
# The instrumented harness binary is built from /repo's working tree like the real one; evidence/work/replay go to <outdir>.
set -u
cd "$(dirname "$0")/.."
export GOFLAGS=-mod=mod GOPROXY=off GOSUMDB=off GOTOOLCHAIN=local
OUT=$1; shift
mkdir -p "$OUT"
./check --build >/dev/null || exit 2
(cd harness && go build -cover -coverpkg=./...,github.com/z7zmey/php-parser/... -tags verif -o "$OUT/vcheck-cover" ./cmd/vcheck) || exit 2
for id in "$@"; do
  rm -rf "$OUT/raw-$id"; mkdir -p "$OUT/raw-$id"
  GOCOVERDIR=$OUT/raw-$id VERIF_DIR=$PWD VERIF_EVIDENCE_DIR=$OUT/ev VERIF_WORK_DIR=$OUT/work VERIF_REPLAY_DIR=$OUT/replay VERIF_BIN_DIR=$OUT "$OUT/vcheck-cover" -prop "$id" -tier "${TIER:-quick}" 2>&1 | grep "^$id tier="
  go tool covdata textfmt -i="$OUT/raw-$id" -pkg=github.com/z7zmey/php-parser/... -o "$OUT/$id.txt"
  rm -rf "$OUT/raw-$id"
done
