package mon

import (
	"fmt"
	"strings"

	"verif/harness/core"
	"verif/harness/obs"

	"github.com/z7zmey/php-parser/pkg/ast"
)

// C04 — tokens carry exact source text, offsets and lines, and tile the source.
// The monitor itself is checkTokens (tokens.go).

// a tree returned earlier must stay what it was while later parses run (shared or recycled
// lexer/pool state would show here): the previous tree of this worker is re-read after every parse
var c04Prev struct {
	root ast.Vertex
	src  []byte
	ver  string
	fp   string
}

func c04Case(c *core.Ctx, pc parseCase) {
	c.Inflight(pc.Src, "C04 parse "+pc.Ver)
	pr := obs.Parse(pc.Src, pc.Ver, true)
	if c04Prev.root != nil {
		if now := obs.Fingerprint(c04Prev.root, false); now != c04Prev.fp {
			c.Violation("tok|earlier-tree-changed-by-later-parse|"+c13Where(c04Prev.fp, now), "a tree returned by an earlier Parse call changed while a later, unrelated Parse call ran: "+obs.FirstDiff(c04Prev.fp, now), core.W(c04Prev.src, c04Prev.ver).With("later_input", obsQuote(pc.Src, 200)))
		}
		c.Add("earlier_trees_re-read_after_a_later_parse", 1)
		c04Prev.root = nil
	}
	if pr.Panic == nil && pr.Root != nil && len(pc.Src) < 4000 {
		c04Prev.root, c04Prev.src, c04Prev.ver = pr.Root, pc.Src, pc.Ver
		c04Prev.fp = obs.Fingerprint(pr.Root, false)
	}
	if pr.Panic != nil {
		if pr.Panic.Verif && strings.Contains(pr.Panic.Msg, "token order violated") {
			// the online monitor in the parser's Lex hook: a token was delivered that starts before the previous one ended
			c.Violation("tok|online-order-hook|"+fmt.Sprintf("fam%d", obs.Fam(pc.Ver)), "the parser hook saw a token delivered out of order: "+pr.Panic.Msg, core.W(pc.Src, pc.Ver))
			return
		}
		c.Add("parses_that_panicked(C01's business)", 1)
		return
	}
	if pr.Root == nil {
		c.Add("parses_without_tree", 1)
		return
	}
	errFree := len(pr.Errors) == 0
	st := checkTokens(c, pr.Root, pc.Src, pc.Ver, errFree)
	c.Add("tokens_checked", int64(st.Tokens))
	c.Add("free_floating_checked", int64(st.FF))
	c.Cover("case_class", pc.Class)
	c.Cover("family", fmt.Sprint(obs.Fam(pc.Ver)))
	if errFree {
		c.Add("error_free_trees(tiling checked)", 1)
		c.Cover("error_free_by_class", pc.Class)
		if st.Tokens+st.FF > 1024 {
			c.Add("error_free_trees_crossing_a_pool_block", 1)
		}
		if st.Tokens+st.FF > 4096 {
			c.Add("error_free_trees_crossing_4_pool_blocks", 1)
		}
	} else {
		c.Add("trees_with_errors(order/value/lines checked)", 1)
	}
	hasCR, hasCRLF := false, false
	for i, b := range pc.Src {
		if b == '\r' {
			if i+1 < len(pc.Src) && pc.Src[i+1] == '\n' {
				hasCRLF = true
			} else {
				hasCR = true
			}
		}
	}
	if hasCR {
		c.Add("inputs_with_lone_CR", 1)
	}
	if hasCRLF {
		c.Add("inputs_with_CRLF", 1)
	}
	c.Max("max_tokens_in_one_tree", int64(st.Tokens+st.FF))
	c.Max("max_lines_in_one_input", int64(st.Lines))
	if st.Tokens >= 3 {
		c.NonTrivial(pc.Src, []byte(pc.Ver))
	}
	if c.WantSample() && st.Tokens > 8 && errFree && len(pc.Src) < 300 {
		c.Sample(map[string]interface{}{"input": obsQuote(pc.Src, 300), "version": pc.Ver, "class": pc.Class, "tokens": st.Tokens, "free_floating": st.FF, "lines": st.Lines, "tiled": st.Tiled})
	}
}

func init() {
	core.Register(&core.Check{
		ID:   "C04",
		Rule: "cases = known-finding witnesses ++ PRNG mix of {hostile G3 inputs, corpus snippets, line-terminator rewrites (LF/CRLF/CR/mixed) of corpus snippets and generated programs, block-crossing concatenations, generated programs in PRNG trivia layouts} x PRNG version; every returned tree is walked: value/offset/line/order checks always, tiling + free-floating classification + no blanks at the ends of significant tokens + leaf values when no error was delivered; the token-order verdict of the online hook counts; the tree of the previous parse is fingerprinted again after each parse; non-trivial = the tree holds >= 3 significant tokens; distinct by (input bytes, version)",
		Assumptions: []string{
			"reference line counter: a line ends after LF, after CRLF and after a CR not followed by LF",
			"tree order of tokens = struct field order with separator lists interleaved with the list they follow (the printer's contract, C15)",
			"zero-width tokens (Root.EndTkn) may carry the line of the byte before or at their offset",
		},
		Plan: func(p core.Params) int { return p.Pick(150000, 3000000) },
		Run: func(c *core.Ctx, idx int) {
			c04Case(c, genParseCase(c.P.Seed, "C04", idx, 35))
		},
		RunWitness: func(c *core.Ctx, w core.Witness) {
			c04Case(c, parseCase{w.Src, w.Ver, "witness"})
		},
		MinNonTrivial: 1000,
	})
}
