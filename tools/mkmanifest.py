#!/usr/bin/env python3
"""Regenerates /verif/MANIFEST.json from the table below and validates it against the schema."""
import json, sys, os
V = os.path.dirname(os.path.dirname(os.path.abspath(__file__)))
BUILT = set(sys.argv[1:]) if len(sys.argv) > 1 else None

checks = {
 "C01": dict(technique="runtime monitoring: recovered-panic / logical-step hook (step and token budgets, token order) / CPU-watchdog / guarded-buffer / stdout-stderr monitors over hostile inputs, two complete enumerations (lexical context x byte; torture snippet x position x inserted byte) and size-parametrised stress shapes",
             text="Hostile inputs (prefixes, token soup, byte mutations, splices, random bytes), the context x byte enumeration, the snippet x position x inserted-byte enumeration, every corpus/torture snippet, scaled valid programs, line sweeps and 482 size-parametrised shapes (32 hand-written + a run of each of 30 bytes/units inside each of 15 lexical states) x versions of both families x {callback, nil}: every Parse call runs under recover, under the verif step/token budget hooks (a hang is a logical-step overrun), a per-case CPU watchdog with isolated confirmation, a canary-guarded input array and an fstat of stdout/stderr; hook step counts on k-fold replications and CPU time at n vs 8n check proportionality (three confirmations, else inconclusive).",
             note="Trusted: the verif hooks bound all non-advancing lexer work (sites listed in DESIGN §3); Go runtime bounds checks turn memory errors into panics.", ref="§6 C01"),
 "C02": dict(technique="runtime monitor: byte-equality oracle on print(parse(src)) with provenance writer, over generated/hostile/corpus sources; file-equality oracle on directories rewritten by the real CLI (-pb)",
             text="Every input of the workload that parses with zero errors is printed and compared byte for byte with the source, under every version; the provenance writer localises the first differing chunk; the real CLI (-pb) is run over generated directories of silently parsing files (HTML/shebang/open-tag starts, every ending; 5 versions; GOMAXPROCS 1/2/16) and every file must be left byte-identical.",
             note="Only silent parses the workload reaches are observed.", ref="§6 C02"),
 "C03": dict(technique="runtime monitor: two reference-model oracles — a grammar-directed program generator with expected derivation (tree-first, minimal parentheses from PHP's precedence table) and an independent precedence-climbing reference parser over random unparenthesised token strings (string-first)",
             text="Generated valid programs of both families with their prescribed tree (kinds, roles, order, verbatim values, and the by-reference / variadic / static markers that this AST keeps as tokens) parsed under versions that have the syntax: any delivered error or structural difference refutes; PHP 7-only syntax must be rejected under 5.x and flexible heredocs before 7.3; random operator strings are judged by the reference parser (tree, or syntax error for non-associative chains). Construct, operator-pair and adjacent-operator coverage are reported.",
             note="Trusted: the generator's construct->(kind, roles) mapping and my reading of PHP's precedence table (encoded twice, independently: renderer and reference parser).", ref="§6 C03"),
 "C04": dict(technique="runtime monitor: token invariants (object identity, text, offsets, lines, order, tiling, free-floating classification, leaf values) on every returned tree against an independent line counter; online token-order hook; earlier trees re-read after later parses",
             text="For every tree returned on the workload: token text = source slice, offsets in range and increasing, lines = reference lines (LF, CRLF, lone CR), and for error-free parses exact tiling, free-floating attachment and classification, leaf value = token text.",
             note="Trusted: reflection walker over exported fields; reference line counter.", ref="§6 C04"),
 "C05": dict(technique="runtime monitor: node span oracle (min/max token offsets of the subtree, documented conventions) on error-free parses",
             text="For every node of every error-free tree of the workload: start/end = first/last own token under the documented conventions, nesting, sibling order, lines.",
             note="Conventions encoded are exactly those in the property text and DESIGN §6 C05.", ref="§6 C05"),
 "C06": dict(technique="runtime monitor over recorded error-callback event sequences; guaranteed-breaking edits (counting argument, deleted mandatory operands and last list elements, nested __halt_compiler, PHP 5 compile-time errors, unterminated last heredoc) as fault injection; nesting depth up to 70 000 as a stress dimension; callback-vs-nil and nested-parse (re-entrancy) differential monitors",
             text="Valid generated programs with an edit that is invalid by a bracket/operator counting argument must deliver >= 1 error, as must PHP 5 compile-time errors (trait extends/implements, reference key) and a lengthened closing label of the last heredoc, and programs from which a mandatory operand (catch variable, condition, right side of an assignment, class of new, member name ...; 27 node.role rules) or the last element of a list without trailing separator (19 lists) was deleted, or into which __halt_compiler(); was inserted below the outermost level; nesting constructs 60..70 000 deep must parse silently and completely when valid and deliver an error with one closer removed or one opener doubled; programs with a flexible heredoc terminator under every version below 7.3 must deliver an error; every delivered error is checked for message, range, line, order (the position-less end-of-input error last); callback vs nil trees compared by full fingerprint; the real CLI (-e -p) over directories of malformed files must print, per file, exactly the errors delivered for that file alone.",
             note="'Invalid' is only asserted for edits invalid by construction.", ref="§6 C06"),
 "C07": dict(technique="runtime monitor: prefix-statement equality oracle, ordered-subsequence oracle on multi-error files (in 16 list contexts incl. closures inside interpolations), prefix oracle on truncated programs, block-containment oracle for a forgotten semicolon in the last statement of a braced list, and provenance checker on printed recovery trees",
             text="Statement lists with a benign malformed statement inserted: preceding statements must equal their stand-alone parse (tokens, positions), following ones must be present; burst cases with up to 90 malformed statements between well-formed ones (top level, or inside one of 15 wrappers: function/method/closure bodies, blocks, alternative-syntax, try/finally bodies, closures written inside six interpolation forms), all of which must be found again in order; programs cut off behind a PRNG token: if a tree is returned, the complete top-level statements before the cut are its first statements, identical to the clean parse; a benign malformed statement must never cost the tree, nor the top-level statements behind the one it is in; every tree returned with errors is printed through the provenance writer: only source chunks, once, in order.",
             note="Statement lists only (member lists have no error production).", ref="§6 C07"),
 "C08": dict(technique="runtime monitor: metamorphic structure-equality oracle across trivia layouts of one abstract program",
             text="Each generated program is rendered under many trivia layouts (none/space/tab/LF/CRLF/CR/comments) permitted by PHP; all layouts must parse silently to the same structure projection.",
             note="Trusted: the gap table of where PHP permits trivia.", ref="§6 C08"),
 "C09": dict(technique="runtime monitor: reference-model oracle for version acceptance/order on a full grid, differential monitor across versions of one class on hostile inputs",
             text="Full (major,minor) grid incl. 2^31, k*2^32+small, 2^63, 2^64-1: Validate/Parse acceptance (eight inputs per cell incl. empty and nil, with and without callback), error value, nil tree, all order relations vs numeric tuple order; version strings vs reference parse (and parsed again after the caller edited the first value); hostile/valid inputs under all versions of each class and nil version vs 7.4 compared by full fingerprint and errors; every input also under one unsupported version (out-of-range error, no tree, silent callback).",
             note="The grid is finite and enumerated completely; inputs are sampled.", ref="§6 C09"),
 "C10": dict(technique="runtime monitor: differential full-fingerprint oracle between the PHP5 and PHP7 grammars on generated common-subset programs",
             text="Common-subset programs (no PHP7-only syntax, no uniform-variable-syntax regroupings) in many layouts (every 40th program spans several 1024-entry pool blocks) are parsed under 5.x and 7.x; kinds, values, tokens, free-floating content and positions must be identical.",
             note="Trusted: the generator's definition of the common subset (DESIGN §6 C10 scope decision).", ref="§6 C10"),
 "C11": dict(technique="Go race detector (twin run from a -race build, Gosched injection at the lexer hooks) over batches of concurrent pipelines; result equality against the sequential run computed afterwards; measured interleaving diversity; the real CLI under -race; sequential predecessor-independence monitor (Parse(X) repeated after offset-aligned predecessors); exactly-once presentation monitor for one Traverser shared by all goroutines; failing writers as injected faults; fresh-process baseline for one pipeline per batch and for literal-rich 'lexeme soup' jobs (persistent caches)",
             text="Batches of 2..32 goroutines x GOMAXPROCS {1,2,4,16} run parse/print/dump/traverse/resolve/format pipelines (incl. a dump and a print into a writer that fails after a few bytes) on different inputs, concurrent phase first and the sequential baseline afterwards in the same process; every result must equal the baseline; the -race twin reports de-duplicated race reports as violations and runs the CLI worker pool over a generated directory (-d -r -e -p -pb), comparing rewritten files and the multiset of dumps with the results obtained alone; every fourth case re-parses one input after each of a list of predecessors (itself, truncations, escaped-byte variants sharing its offsets, unrelated inputs) and requires the first result every time; after each batch one shared Traverser walks all trees of the batch concurrently (counting visitor: every node exactly once; race twin: stateless visitor); one pipeline per batch (and every lexeme-soup job) is compared with the same pipeline run by a fresh process.",
             note="The race detector only sees interleavings that occur; diversity is measured and reported.", ref="§6 C11"),
 "C12": dict(technique="runtime monitor: recording visitor vs reflection pre-order oracle, exhaustive over node kinds x child-slot subsets, plus parsed trees",
             text="Every node kind of ast.Visitor x slot subsets (all 2^k for k<=12) traversed with a recording visitor and compared with the reflection pre-order; each synthetic node is also walked with a visitor that replaces the children of the node it is handed (the replacements must be presented, the detached children not); parsed trees additionally checked for shared node objects and sibling source order.",
             note="Trusted: reflection walker (field declaration order = slot order), generated recording visitor.", ref="§6 C12"),
 "C13": dict(technique="runtime monitor: pointer-level fingerprint and output-stability oracle over PRNG operation histories (two printer configurations, subtree print, four dump option sets, traversals, resolver, dump/print into failing writers; half of the histories through long-lived Dumper/Traverser objects); race-detector twin with two concurrent readers of one tree",
             text="PRNG histories over {print x3, dump x4, traverse(null), traverse(recording), resolve, Accept(null), dump and print into a failing writer} on parsed trees, for half of them with the worker's long-lived Dumper/Traverser objects: pointer-level fingerprint and guarded source must be unchanged after every operation and every output must equal the fresh-tree output.",
             note="Fingerprint covers every exported field reachable by reflection incl. slice len/cap and data pointers.", ref="§6 C13"),
 "C14": dict(technique="runtime monitor: reference-model oracle (independent implementation of PHP name resolution) over generated namespace programs; per-file name-multiset oracle on the output of the real CLI",
             text="Generated programs with namespaces, use/group-use/aliases in PRNG letter case and references in every resolvable position: ResolvedNames must equal the reference resolver's map (missing, extra, wrong); the real CLI (-r -p) over directories of such programs must print, per file, the names the resolver yields for that file alone.",
             note="Trusted: model.Resolve, written from PHP's documented rules.", ref="§6 C14"),
 "C15": dict(technique="runtime monitor: marker-sequence oracle on printer output, exhaustive over node kinds x slot subsets; provenance monitor for three edits of parsed trees (marker leaf, token-less word, token-less wrapper); source-offset oracle for in-place token value edits and whole-statement replacement",
             text="Every node kind x slot subsets with unique marker tokens/free-floating/leaves/separators: output must contain exactly the present markers in slot order, default separators where tokens are missing, and only PHP lexemes otherwise; parsed trees with one subtree replaced must print identically outside it; a token given a new value (position untouched) must print as the source with exactly that text replaced; a statement replaced by a token-less one (also right after inline HTML nested in blocks) must leave everything outside it unchanged.",
             note="Trusted: field order = source order (monitored on parsed trees by C04/C12).", ref="§6 C15"),
 "C16": dict(technique="runtime monitor: dump read back with go/parser and compared field by field with a reflection walk (token ids evaluated against the constant declarations), exhaustive over node kinds x slot subsets x 4 option sets, plus parsed trees (half of them through long-lived dumpers that have dumped other trees before)",
             text="Every node kind x slot subsets (marker values incl. bytes that need quoting, unique positions) x {tokens,positions} option sets, plus parsed trees: valid Go, type, labels, presence, content, exclusion by options; a long-lived dumper's text must equal a new dumper's byte for byte; a node object standing twice in a list is rendered twice; every second dump goes through Accept into a writer that has only Write; long-lived dumpers are re-used after a dump that broke off on a failing writer.",
             note="Trusted: go/parser as the definition of valid Go syntax.", ref="§6 C16"),
 "C17": dict(technique="runtime monitor: format/print/reparse round-trip structure oracle, idempotence and whitespace-layout-invariance oracles over generated programs, with reduction of a failing program to its focal construct",
             text="Unit programs (one focal kind, one slot configuration) and composites: format+print must re-parse silently to the same structure, be identical across whitespace layouts, and be a fixed point; heredoc statements (7.3+, indented closing labels, binary prefix) and brace names around plain variables (PHP 7) included; every passing program is also formatted by a long-lived formatter and printed only after that formatter formatted the next program; scaled programs (one construct repeated or nested up to 60 times, 65 shapes) pass through the single-source checks.",
             note="Known formatter defects are enumerated by signature in known-findings.jsonl.", ref="§6 C17"),
 "C18": dict(technique="runtime monitor over Pool.Get histories (pointer-distinctness and write-isolation oracle), exhaustive over a block-size grid plus long histories, pools of different sizes alive together, several parse trees kept alive (objects pairwise distinct across trees, no position object held twice within a tree), and concurrent position.NewPosition calls",
             text="Every request count 0..4*size+3 for each block size of the grid, long histories (200k/1.5M requests) and large blocks, for both pools, single, two interleaved pools of one size and 2..5 of different sizes, plus 2..5 Parse calls (sequential or concurrent) whose trees stay alive, plus position.NewPosition from 2..16 goroutines: the monitor observes every returned pointer and re-reads every object after writes through all others.",
             note="Block sizes outside the grid are not observed.", ref="§6 C18"),
}

def entry(pid, c):
    return {
        "property_id": pid,
        "quick_cmd": "./check %s --tier quick" % pid,
        "thorough_cmd": "./check %s --tier thorough" % pid,
        "evidence_file": "evidence/%s.json" % pid,
        "replay_cmd_template": "./check %s --replay {path}" % pid,
        "engine": "vcheck",
        "level_claimed": {"category": "exploration", "text": c["text"], "design_ref": c["ref"]},
        "level_note": c["note"],
        "technique": c["technique"],
    }

props = [json.loads(l)["id"] for l in open(os.path.join(V, "properties.jsonl"))]
import subprocess
registered = set(subprocess.check_output([os.path.join(V, ".bin", "vcheck"), "-list"]).decode().split())
built = [p for p in props if p in checks and p in registered and (BUILT is None or p in BUILT)]
m = {
    "version": 1,
    "setup_cmd": "./check --build",
    "hooks": {
        "guard": "verif",
        "enable": "go build -tags verif (the harness module replaces github.com/z7zmey/php-parser with /repo and is built with -tags verif by ./check on every run)",
        "baseline_off_cmd": "cd /repo && GOFLAGS=-mod=mod GOPROXY=off GOSUMDB=off GOTOOLCHAIN=local go test -vet=off -count=1 ./...",
        "source_commits": ["f2fb8ed"],
        "add_only": True,
    },
    "engines": [{"name": "vcheck", "path": "harness/cmd/vcheck", "serves_properties": built,
                 "kind_free_text": "Go harness: deterministic case generators, child-process workers running the real library built with -tags verif (and -race where noted), online monitors and offline checkers over recorded observations, evidence/replay writer"}],
    "checks": [entry(p, checks[p]) for p in built],
    "not_applicable": [{"property_id": p, "reason": "check not built yet in this revision of /verif (work in progress, see DESIGN.md §11)"} for p in props if p not in built],
    "notes": "Runtime monitoring only. ./check <ID> rebuilds the harness against /repo's working tree on every invocation. Known findings: known-findings.jsonl. Seeded changes used to validate the monitors: seeded/.",
}
json.dump(m, open(os.path.join(V, "MANIFEST.json"), "w"), indent=1)
try:
    import jsonschema
    jsonschema.validate(m, json.load(open("/root/.vp/MANIFEST.schema.json")))
    print("MANIFEST.json valid;", len(built), "checks")
except ImportError:
    print("jsonschema not available; not validated")
