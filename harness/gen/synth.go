package gen

import (
	"fmt"
	"reflect"

	"verif/harness/core"
	"verif/harness/obs"

	"github.com/z7zmey/php-parser/pkg/ast"
	"github.com/z7zmey/php-parser/pkg/position"
	"github.com/z7zmey/php-parser/pkg/token"
)

// G5 — synthetic node builder. For a node kind it builds instances whose every
// token slot holds a token with a unique marker value (and a unique marker
// free-floating token), every child slot a unique leaf, every list a few unique
// leaves with unique separators; slots are toggled present/absent.

// Slot is a non-position field of a node kind.
type Slot struct {
	Name string
	Kind obs.FieldKind
}

// Slots lists the slots of a zero node in struct order (Position excluded).
func Slots(zero ast.Vertex) []Slot {
	var out []Slot
	for _, f := range obs.Fields(zero) {
		if f.Kind != obs.FPos {
			out = append(out, Slot{f.Name, f.Kind})
		}
	}
	return out
}

// Subsets enumerates slot subsets for a kind with k slots: all 2^k for k <= 12,
// otherwise all-present, all-absent, every single toggle from both, and PRNG subsets.
func Subsets(k int, r *core.Rand, extra int) [][]bool {
	var out [][]bool
	if k <= 12 {
		for m := 0; m < 1<<uint(k); m++ {
			s := make([]bool, k)
			for i := range s {
				s[i] = m>>uint(i)&1 == 1
			}
			out = append(out, s)
		}
		return out
	}
	all := func(v bool) []bool {
		s := make([]bool, k)
		for i := range s {
			s[i] = v
		}
		return s
	}
	out = append(out, all(true), all(false))
	for i := 0; i < k; i++ {
		a, b := all(true), all(false)
		a[i], b[i] = false, true
		out = append(out, a, b)
	}
	for i := 0; i < k; i++ {
		for j := i + 1; j < k; j++ {
			a := all(true)
			a[i], a[j] = false, false
			out = append(out, a)
		}
	}
	for n := 0; n < extra; n++ {
		s := make([]bool, k)
		for i := range s {
			s[i] = r.Bool()
		}
		out = append(out, s)
	}
	return out
}

// Synth carries the marker counter of one synthetic tree.
type Synth struct {
	R        *core.Rand
	n        int
	WithPos  bool // give nodes and tokens unique positions
	PlainTok bool // tokens without free-floating markers
	Nasty    bool // sometimes put bytes that need quoting into marker values
	NestFF   bool // sometimes give a free-floating token free-floating tokens of its own (a rewritten tree that kept a removed token's comments)
	Share    bool // sometimes put ONE node object twice into a list (a tree built by re-using a node: "echo $a, $a")
	Shared   int  // how many lists got a repeated element
	Leaves   []ast.Vertex
}

func (s *Synth) next() int { s.n++; return s.n }

// Marker text: \x01 <class> <n> [nasty bytes] \x02 — never produced by the printer, dumper or
// formatter themselves, not an identifier character at either end.
func Mark(class string, n int) []byte { return []byte(fmt.Sprintf("\x01%s%d\x02", class, n)) }

var nasty = []string{"\xe9", "\xef\xbb\xbf", "\"", "\\", "\n", "\r\n", "\t", "`", "'", "\x00", "\xff\xfe", "é", "\u2028", "$a", "{", "*/", "?>", "<?php", "%", "%s", "100%", "%d%%", "%!v", "\\x", "\\", "\r", "\x7f", "\xc3", "\u00a0"}

// mark is Mark with, sometimes, bytes that are awkward for quoting inside the marker.
func (s *Synth) mark(class string) []byte {
	n := s.next()
	if s.Nasty && s.R.Chance(1, 5) {
		return []byte(fmt.Sprintf("\x01%s%d%s\x02", class, n, nasty[s.R.Intn(len(nasty))]))
	}
	return Mark(class, n)
}

var synthIDs = []token.ID{token.T_STRING, token.T_VARIABLE, token.T_LNUMBER, token.T_WHITESPACE, token.T_COMMENT, token.T_IS_GREATER_OR_EQUAL, token.T_INCLUDE, token.ID(';'), token.ID('('), 0}

var synthFFIDs = []token.ID{token.T_WHITESPACE, token.T_COMMENT, token.T_WHITESPACE, token.T_COMMENT, token.T_DOC_COMMENT, token.T_OPEN_TAG, token.T_INLINE_HTML}

func (s *Synth) pos() *position.Position {
	if !s.WithPos {
		return nil
	}
	n := s.next()
	return &position.Position{StartLine: n, EndLine: n + 1, StartPos: n * 10, EndPos: n*10 + 7}
}

// Tok builds a marker token with one marker free-floating token.
func (s *Synth) Tok(class string) *token.Token {
	t := &token.Token{ID: synthIDs[s.R.Intn(len(synthIDs))], Value: s.mark(class), Position: s.pos()}
	if !s.PlainTok {
		nff := 1
		if s.R.Chance(1, 4) {
			nff = 2
		}
		for i := 0; i < nff; i++ {
			// every id the scanner gives to free-floating tokens: the printer must emit them all alike
			ff := &token.Token{ID: synthFFIDs[s.R.Intn(len(synthFFIDs))], Value: s.mark("F"), Position: s.pos()}
			if s.NestFF && s.R.Chance(1, 5) {
				ff.FreeFloating = []*token.Token{{ID: token.T_COMMENT, Value: s.mark("F"), Position: s.pos()}}
			}
			t.FreeFloating = append(t.FreeFloating, ff)
		}
	}
	return t
}

// Leaf builds a unique leaf node (an Identifier holding one marker token).
func (s *Synth) Leaf() ast.Vertex {
	l := &ast.Identifier{IdentifierTkn: s.Tok("L"), Position: s.pos()}
	s.Leaves = append(s.Leaves, l)
	return l
}

// Build creates a node of the kind of zero with the given slots present.
// A present single-child slot named "Stmt" holds, with probability 1/2, a
// StmtStmtList (the printer treats it specially in alternative syntax).
func (s *Synth) Build(zero ast.Vertex, present []bool) ast.Vertex {
	n := reflect.New(reflect.TypeOf(zero).Elem())
	e := n.Elem()
	slots := Slots(zero)
	si := 0
	lastList := 0
	for i := 0; i < e.NumField(); i++ {
		fv := e.Field(i)
		ft := e.Type().Field(i)
		if ft.Type == reflect.TypeOf((*position.Position)(nil)) {
			if p := s.pos(); p != nil {
				fv.Set(reflect.ValueOf(p))
			}
			continue
		}
		on := present[si]
		sl := slots[si]
		si++
		switch sl.Kind {
		case obs.FTok:
			if on {
				fv.Set(reflect.ValueOf(s.Tok("T")))
			}
		case obs.FBytes:
			if on {
				fv.SetBytes(s.mark("V"))
			}
		case obs.FNode:
			if on {
				var c ast.Vertex
				if sl.Name == "Stmt" && s.R.Bool() {
					sub := &ast.StmtStmtList{Position: s.pos()}
					if s.R.Bool() {
						sub.OpenCurlyBracketTkn = s.Tok("T")
					}
					sub.Stmts = []ast.Vertex{s.Leaf(), s.Leaf()}
					if s.R.Bool() {
						sub.CloseCurlyBracketTkn = s.Tok("T")
					}
					c = sub
				} else {
					c = s.Leaf()
				}
				fv.Set(reflect.ValueOf(c))
			}
		case obs.FNodes:
			lastList = 0
			if on {
				lastList = s.R.Range(1, 3)
				l := make([]ast.Vertex, lastList)
				for k := range l {
					l[k] = s.Leaf()
				}
				if s.Share && lastList >= 2 && s.R.Chance(1, 3) {
					l[lastList-1] = l[0]
					s.Shared++
				}
				fv.Set(reflect.ValueOf(l))
			} else if s.R.Chance(1, 3) {
				fv.Set(reflect.ValueOf([]ast.Vertex{}))
			}
		case obs.FToks:
			if on {
				// separators of the preceding list: n-1 (plain) or n (trailing separator);
				// without items there is nothing to separate
				cnt := 0
				if lastList > 0 {
					switch s.R.Intn(4) {
					case 0:
						cnt = lastList // trailing separator
					case 1:
						cnt = s.R.Intn(lastList + 1) // mixed: some separators are tokens, the rest defaults
					default:
						cnt = lastList - 1
					}
				}
				l := make([]*token.Token, cnt)
				for k := range l {
					l[k] = s.Tok("S")
				}
				fv.Set(reflect.ValueOf(l))
			} else if s.R.Chance(1, 3) {
				fv.Set(reflect.ValueOf([]*token.Token{}))
			}
		}
	}
	return n.Interface().(ast.Vertex)
}
