package mon

import (
	"bytes"
	"fmt"
	"os"
	"os/exec"
	"path/filepath"
	"sort"
	"strings"

	"verif/harness/core"
	"verif/harness/gen"
	"verif/harness/obs"

	"github.com/z7zmey/php-parser/pkg/visitor/nsresolver"
	"github.com/z7zmey/php-parser/pkg/visitor/traverser"
)

// c14CLI — the command-line tool is how most users see resolved names ("-r"). One case = one run of the
// real CLI (built from the working tree) with "-r -p" over a generated directory of namespace programs:
// files with and without namespace declarations, with and without imports, in every order. For every file
// the multiset of names the tool prints must equal the multiset the resolver yields for that file alone in
// a fresh resolver (whose map the main cases compare with the reference model). Whatever the tool carries
// from one file to the next — current namespace, alias tables — shows as a difference.
func c14CLI(c *core.Ctx, idx int) {
	bin := filepath.Join(core.BinDir(), "php-parser")
	if _, err := os.Stat(bin); err != nil {
		core.Fail("C14: CLI build missing (%s)", bin)
	}
	r := core.NewRand(c.P.Seed, "C14cli", idx)
	fam, ver := 7, "7.4"
	if idx%3 == 2 {
		fam, ver = 5, "5.6"
	}
	dir := filepath.Join(core.WorkDir(), "C14-cli", fmt.Sprintf("run%d-%d", idx, os.Getpid()))
	os.RemoveAll(dir)
	defer os.RemoveAll(dir)
	os.MkdirAll(dir, 0o755)
	type f struct {
		path  string
		src   []byte
		names []string
	}
	var files []f
	want := c.P.Pick(150, 500)
	for i := 0; len(files) < want && i < want*3; i++ {
		root, _ := gen.NSProgram(r.Split(fmt.Sprint("p", i)), fam)
		src := gen.Render(root.Tokens(), []int{gen.LayCanon, gen.LayMinimal, gen.LayLF, gen.LayComments}[r.Intn(4)], r.Split(fmt.Sprint("l", i)), nil)
		pr := obs.Parse(append([]byte(nil), src...), ver, true)
		if pr.Panic != nil || pr.Root == nil || len(pr.Errors) > 0 {
			continue
		}
		nsr := nsresolver.NewNamespaceResolver()
		if p := obs.Try(func() { traverser.NewTraverser(nsr).Traverse(pr.Root) }); p != nil {
			continue
		}
		var names []string
		for _, v := range nsr.ResolvedNames {
			names = append(names, v)
		}
		sort.Strings(names)
		p := filepath.Join(dir, fmt.Sprintf("f%04d.php", len(files)))
		if os.WriteFile(p, src, 0o644) != nil {
			core.Fail("C14: cannot write %s", p)
		}
		files = append(files, f{p, src, names})
		if bytes.Contains(bytes.ToLower(src), []byte("namespace")) {
			c.Cover("cli_files", "with a namespace declaration")
		} else {
			c.Cover("cli_files", "without a namespace declaration")
		}
	}
	procs := []string{"1", "4", "16"}[r.Intn(3)]
	cmd := exec.Command(bin, "-r", "-p", "-phpver", ver, dir)
	cmd.Env = append(os.Environ(), "GOMAXPROCS="+procs)
	var stdout, stderr bytes.Buffer
	cmd.Stdout, cmd.Stderr = &stdout, &stderr
	c.Inflight([]byte(dir), "C14 CLI run")
	err := cmd.Run()
	w := core.Witness{Cfg: map[string]string{"cli": "php-parser -r -p -phpver " + ver + " <dir>", "files": fmt.Sprint(len(files)), "GOMAXPROCS": procs}}
	c.Add("cli_runs", 1)
	if err != nil {
		c.Violation("cli|exit", "the CLI exited with "+err.Error()+": "+trunc(stderr.String(), 300), w)
		return
	}
	got := map[string][]string{}
	cur := ""
	for _, l := range strings.Split(stderr.String(), "\n") {
		switch {
		case strings.HasPrefix(l, "===> "):
			if cur != "" {
				got[cur] = append(got[cur], strings.TrimPrefix(l, "===> "))
			}
		case strings.HasPrefix(l, "==> ["):
			if i := strings.Index(l, "] "); i > 0 {
				cur = filepath.Base(strings.TrimSpace(l[i+2:]))
				if _, dup := got[cur]; !dup {
					got[cur] = []string{}
				}
			}
		}
	}
	for _, fl := range files {
		g, ok := got[filepath.Base(fl.path)]
		if !ok {
			c.Violation("cli|file-not-reported", "the CLI printed no block for "+filepath.Base(fl.path), w)
			return
		}
		sort.Strings(g)
		c.Add("cli_files_compared", 1)
		c.Add("cli_names_compared", int64(len(g)))
		if strings.Join(g, "\n") != strings.Join(fl.names, "\n") {
			c.Violation("cli|resolved-names-differ", fmt.Sprintf("php-parser -r prints other names for a file than the resolver yields for that file alone: %s", obs.FirstDiff(strings.Join(fl.names, " "), strings.Join(g, " "))), core.W(fl.src, ver).With("cli", w.Cfg["cli"]).With("files_in_run", fmt.Sprint(len(files))))
			return
		}
	}
	if len(files) >= 50 {
		c.NonTrivial([]byte("cli"), []byte(fmt.Sprint(idx)))
	}
}
