package mon

import (
	"bytes"
	"expvar"
	"fmt"
	"strconv"
	"strings"
	"syscall"

	"verif/harness/core"
	"verif/harness/gen"
	"verif/harness/obs"
)

// C01 — parsing never crashes, hangs or touches the input buffer.
//
// Per case one hostile input is parsed under several versions x {callback, nil}.
// Refuting events observed per Parse call:
//   - a recovered panic (index/nil/slice panics of the library; a "verif:" panic from the
//     step/token budget hooks = the lexer did more non-advancing work than 8n+64 steps or
//     delivered more than n+8 tokens: a hang turned into a logical-step verdict; a "verif:"
//     panic from the token-order hook);
//   - the per-case CPU watchdog of the worker (confirmed by re-running the case alone);
//   - a changed byte in the canary-guarded input array (len and spare capacity);
//   - bytes written to the process's stdout/stderr during the call (fstat of fd 1/2);
//   - a non-nil error value for a supported version;
//   - with a nil callback: any of the above (the callback is the only reporting channel).
// Proportionality: for k-fold replications of a valid body the hook step counts
// (read through expvar, VERIF_STATS=1) must grow at most 2.2x per doubling, and CPU time on
// adversarial shapes (32 hand-written + 450 byte-run x lexical-state shapes) of size n and 8n must not grow like n^2 (confirmed three times,
// otherwise inconclusive).

func fdSize(fd int) int64 {
	var st syscall.Stat_t
	if syscall.Fstat(fd, &st) != nil {
		return 0
	}
	return st.Size
}

func outputBytes() int64 { return fdSize(1) + fdSize(2) }

// hookSteps reads the global hook counters (VERIF_STATS=1): scanner steps and tokens delivered.
func hookSteps() (steps int64, ok bool) {
	v := expvar.Get("verif_scanner_steps")
	if v == nil {
		return 0, false
	}
	m, isMap := v.(*expvar.Map)
	if !isMap {
		return 0, false
	}
	m.Do(func(kv expvar.KeyValue) {
		if i, isInt := kv.Value.(*expvar.Int); isInt {
			steps += i.Value()
		}
	})
	return steps, true
}

func hookTokens() int64 {
	var n int64
	for _, k := range []string{"verif_php7_tokens", "verif_php5_tokens"} {
		if v, ok := expvar.Get(k).(*expvar.Int); ok && v != nil {
			n += v.Value()
		}
	}
	return n
}

type c01Obs struct {
	panics, trees, errorsDelivered int
	steps                          int64
}

// c01Parse runs one monitored Parse call.
func c01Parse(c *core.Ctx, src []byte, ver string, cb bool, o *c01Obs) {
	g := obs.NewGuard(src)
	cfgTag := "cb"
	if !cb {
		cfgTag = "nil-callback"
	}
	w := core.W(src, ver).With("callback", cfgTag)
	out0 := outputBytes()
	s0, _ := hookSteps()
	pr := obs.Parse(g.Buf(), ver, cb)
	s1, haveHooks := hookSteps()
	out1 := outputBytes()
	if haveHooks {
		o.steps = s1 - s0
		if s1 > s0 {
			c.Add("hook_steps_observed", s1-s0)
		}
		c.Max("max_hook_steps_minus_2x_input_length", s1-s0-2*int64(len(src)))
	}
	if pr.Panic != nil {
		o.panics++
		what := "parser.Parse panicked: " + pr.Panic.Msg
		if pr.Panic.Verif {
			what = "verif hook fired (logical-step verdict for a hang / token-order violation): " + pr.Panic.Msg
		}
		sig := pr.Panic.Sig
		if !cb && strings.Contains(pr.Panic.Msg, "nil pointer") {
			sig += "|nil-callback"
		}
		// empty 7.3+ heredoc: narrow the known call site by an input predicate
		if strings.Contains(sig, "slice bounds out of range") && isEmptyHeredocInput(src) {
			sig += "|empty-heredoc-opener"
		}
		c.Violation(sig, what, w)
	}
	if off, ok := g.Check(); !ok {
		where := "inside the input"
		if off < 0 || off >= len(src) {
			where = "in the spare capacity/neighbourhood of the input slice"
		}
		c.Violation("buffer|modified|"+where, fmt.Sprintf("the caller's buffer changed at relative offset %d (%s) during Parse", off, where), w)
	}
	if out1 != out0 {
		c.Violation("output|bytes-written-to-stdout-or-stderr", fmt.Sprintf("%d bytes appeared on the process's stdout/stderr during Parse", out1-out0), w)
	}
	if pr.Panic == nil && pr.Err != nil {
		c.Violation("error-value|"+pr.Err.Error(), "Parse returned a non-nil error for a supported version: "+pr.Err.Error(), w)
	}
	if pr.Root != nil {
		o.trees++
	}
	o.errorsDelivered += len(pr.Errors)
	c.Add("parse_calls", 1)
	c.Cover("version", ver)
	c.Cover("callback", cfgTag)
}

// isEmptyHeredocInput: some heredoc/nowdoc opener line is directly followed by optional
// blanks and its own label (the known, test-pinned defect C01-empty-heredoc).
func isEmptyHeredocInput(src []byte) bool {
	for i := 0; i+3 < len(src); i++ {
		if src[i] != '<' || src[i+1] != '<' || src[i+2] != '<' {
			continue
		}
		j := i + 3
		for j < len(src) && (src[j] == ' ' || src[j] == '\t') {
			j++
		}
		q := byte(0)
		if j < len(src) && (src[j] == '\'' || src[j] == '"') {
			q = src[j]
			j++
		}
		k := j
		for k < len(src) && (src[k] == '_' || src[k] >= 0x80 || (src[k] >= 'a' && src[k] <= 'z') || (src[k] >= 'A' && src[k] <= 'Z') || (k > j && src[k] >= '0' && src[k] <= '9')) {
			k++
		}
		if k == j {
			continue
		}
		label := src[j:k]
		if q != 0 {
			if k >= len(src) || src[k] != q {
				continue
			}
			k++
		}
		if k < len(src) && src[k] == '\r' {
			k++
		}
		if k < len(src) && src[k] == '\n' {
			k++
		} else if k == 0 || src[k-1] != '\r' {
			continue
		}
		for k < len(src) && (src[k] == ' ' || src[k] == '\t') {
			k++
		}
		if bytes.HasPrefix(src[k:], label) {
			return true
		}
	}
	return false
}

// stress shapes (G3e): adversarial inputs whose size is a parameter.
var c01Shapes = []struct {
	name string
	make func(n int) []byte
}{
	{"unterminated-comment-many-lines", func(n int) []byte { return []byte("<?php /* " + strings.Repeat("x\n", n/2)) }},
	{"unterminated-string-many-lines", func(n int) []byte { return []byte("<?php $a = \"" + strings.Repeat("y\n", n/2)) }},
	{"unterminated-single-quote-backslashes", func(n int) []byte { return []byte("<?php '" + strings.Repeat("\\", n)) }},
	{"double-quote-backslashes", func(n int) []byte { return []byte("<?php \"$a" + strings.Repeat("\\", n) + "\";") }},
	{"open-braces", func(n int) []byte { return []byte("<?php " + strings.Repeat("{", n)) }},
	{"close-braces", func(n int) []byte { return []byte("<?php " + strings.Repeat("}", n)) }},
	{"open-parens", func(n int) []byte { return []byte("<?php " + strings.Repeat("(", n)) }},
	{"nested-arrays", func(n int) []byte {
		return []byte("<?php $a = " + strings.Repeat("[", n/2) + strings.Repeat("]", n/2) + ";")
	}},
	{"unary-chain", func(n int) []byte { return []byte("<?php $a = " + strings.Repeat("!", n) + "$b;") }},
	{"concat-chain", func(n int) []byte { return []byte("<?php $a = 1" + strings.Repeat(".1", n/2) + ";") }},
	{"ternary-chain", func(n int) []byte { return []byte("<?php $a = $b" + strings.Repeat("?:$b", n/4) + ";") }},
	{"heredoc-unterminated", func(n int) []byte { return []byte("<?php <<<A\n" + strings.Repeat(" A1\n", n/4)) }},
	{"heredoc-vars", func(n int) []byte { return []byte("<?php <<<A\n" + strings.Repeat("$a$", n/3) + "\nA;\n") }},
	{"heredocs-many", func(n int) []byte { return []byte("<?php " + strings.Repeat("<<<A\nx\nA;\n", n/10)) }},
	{"html-lt", func(n int) []byte { return []byte(strings.Repeat("<", n)) }},
	{"html-open-close", func(n int) []byte { return []byte(strings.Repeat("<?php ?>", n/8)) }},
	{"lone-cr-lines", func(n int) []byte { return []byte("<?php " + strings.Repeat("\r", n)) }},
	{"crlf-lines-in-comment", func(n int) []byte { return []byte("<?php /* " + strings.Repeat("\r\n", n/2) + "*/") }},
	{"dollar-run", func(n int) []byte { return []byte("<?php " + strings.Repeat("$", n)) }},
	{"string-dollars", func(n int) []byte { return []byte("<?php \"" + strings.Repeat("$", n) + "\";") }},
	{"string-braces", func(n int) []byte { return []byte("<?php \"" + strings.Repeat("{$a", n/3)) }},
	{"backticks", func(n int) []byte { return []byte("<?php " + strings.Repeat("`", n)) }},
	{"arrows", func(n int) []byte { return []byte("<?php $a" + strings.Repeat("->b", n/3) + ";") }},
	{"error-statements", func(n int) []byte { return []byte("<?php " + strings.Repeat(") ; ", n/4)) }},
	{"elseif-chain", func(n int) []byte { return []byte("<?php if(1){}" + strings.Repeat("elseif(1){}", n/11)) }},
	{"line-comments", func(n int) []byte { return []byte("<?php " + strings.Repeat("//x\n", n/4)) }},
	{"hash-comment-long", func(n int) []byte { return []byte("<?php #" + strings.Repeat("?", n)) }},
	{"names", func(n int) []byte { return []byte("<?php a" + strings.Repeat("\\a", n/2) + ";") }},
	{"statements", func(n int) []byte { return []byte("<?php " + strings.Repeat("$a=1;", n/5)) }},
	{"casts", func(n int) []byte { return []byte("<?php $a=" + strings.Repeat("(int)", n/5) + "$b;") }},
	{"halt-tail", func(n int) []byte { return []byte("<?php __halt_compiler();" + strings.Repeat("\x00\n", n/2)) }},
	{"yield-from-blanks", func(n int) []byte { return []byte("<?php yield" + strings.Repeat(" \n", n/2) + "x;") }},
}

// (heredoc bodies start with a text line: an opener line directly followed by its label is recorded finding #5)
// run shapes: a long run of one byte (or short unit) inside each lexical state — every look-ahead helper and
// every state's inner loop meets every kind of run, terminated or not.
func init() {
	states := []struct{ name, pre, post string }{
		{"php", "<?php ", ";"}, {"double-quoted", "<?php \"", "\";"}, {"single-quoted", "<?php '", "';"}, {"backtick", "<?php `", "`;"},
		{"heredoc", "<?php <<<A\nx\n", "\nA;\n"}, {"nowdoc", "<?php <<<'A'\nx\n", "\nA;\n"}, {"heredoc-unterminated", "<?php <<<A\nx", ""},
		{"block-comment", "<?php /*", "*/"}, {"line-comment", "<?php //", "\n;"}, {"html", "", "<?php ;"}, {"after-arrow", "<?php $a->", "b;"},
		{"string-offset", "<?php \"$a[", "]\";"}, {"dollar-brace", "<?php \"${", "}\";"}, {"halt-tail", "<?php __halt_compiler();", ""},
		{"double-quoted-unterminated", "<?php \"x", ""},
	}
	units := []string{" ", "\t", "\n", "\r\n", "\\", "$", "{", "a", "0", "<", "?", "-", "*", "/", "#", "\"", "'", "`", "$a", "{$", "->", "\\\\", " A\n", "A\n", "\n A", " \n", "\\$", "\\\"", "?>", "<?", "/* ", "/** ", "/*\n", "' ", "\" ", "` ", "<<<A ", "<<<A\n", "(", "[", "b\"", "=> ", "?:", "::", "{$a", "${a", "$a[", "$a->"}
	// the scaled valid programs (G3v) as scaling shapes: size n = bytes
	for _, sh := range gen.ScaledShapes {
		sh := sh
		unit := len(sh.Make(2, "\n")) - len(sh.Make(1, "\n"))
		if unit <= 0 {
			unit = 1
		}
		c01Shapes = append(c01Shapes, struct {
			name string
			make func(n int) []byte
		}{"valid:" + sh.Name, func(n int) []byte {
			k := n / unit
			if strings.HasPrefix(sh.Name, "nested-") && k > 4000 {
				k = 4000 + (k-4000)/8 // deep nesting: recursion depth of the tree walkers stays moderate
			}
			return []byte(sh.Make(k, "\n"))
		}})
	}
	for _, st := range states {
		for _, u := range units {
			st, u := st, u
			c01Shapes = append(c01Shapes, struct {
				name string
				make func(n int) []byte
			}{"run:" + st.name + ":" + strconv.Quote(u), func(n int) []byte {
				return []byte(st.pre + strings.Repeat(u, n/len(u)) + st.post)
			}})
		}
	}
}

// c01CtxDiv: the quick tier takes a seed-rotated half of the context x byte space, the thorough tier all of it.
const c01CtxDiv = 2

func c01CtxCases(p core.Params) int {
	if p.Thorough() {
		return gen.CtxBytesCount()
	}
	return (gen.CtxBytesCount() + c01CtxDiv - 1) / c01CtxDiv
}

func c01Versions(r *core.Rand) []string {
	vs := []string{gen.Versions5[r.Intn(len(gen.Versions5))], gen.Versions7[r.Intn(len(gen.Versions7))]}
	if r.Chance(1, 2) {
		vs = append(vs, r.Pick("7.2", "7.3", "7.4", "5.6", "5.3", "5.0", "7.0", ""))
	}
	return vs
}

func c01Case(c *core.Ctx, src []byte, versions []string, class string) {
	var o c01Obs
	for _, ver := range versions {
		for _, cb := range []bool{true, false} {
			c.Inflight(src, fmt.Sprintf("C01 parse version=%q callback=%v", ver, cb))
			c01Parse(c, src, ver, cb, &o)
		}
	}
	c.Cover("case_class", class)
	c.Add("input_bytes", int64(len(src)))
	if len(src) > 0 {
		c.NonTrivial(src)
	}
	if o.errorsDelivered > 0 {
		c.Add("cases_with_errors_delivered", 1)
	}
	if c.WantSample() && class == "hostile" && o.errorsDelivered > 0 && len(src) > 10 && len(src) < 120 {
		c.Sample(map[string]interface{}{"input": obsQuote(src, 200), "versions": versions, "configs": "callback and nil", "errors_delivered": o.errorsDelivered, "panics": o.panics, "trees_returned": o.trees})
	}
}

func cpuSeconds() float64 {
	var ru syscall.Rusage
	syscall.Getrusage(syscall.RUSAGE_SELF, &ru)
	return float64(ru.Utime.Nano()+ru.Stime.Nano()) / 1e9
}

// c01Scaling: CPU time on shape(n) vs shape(8n).
func c01Scaling(c *core.Ctx, shape int, ver string, n int) {
	sh := c01Shapes[shape]
	measure := func(src []byte) (float64, bool) {
		c.Inflight(src[:min(len(src), 4096)], fmt.Sprintf("C01 scaling shape=%s bytes=%d version=%s", sh.name, len(src), ver))
		best := -1.0
		for i := 0; i < 2; i++ {
			t0 := cpuSeconds()
			pr := obs.Parse(src, ver, i == 0)
			t := cpuSeconds() - t0
			if pr.Panic != nil {
				c.Violation(pr.Panic.Sig+"|shape="+sh.name, "Parse panicked on a stress input: "+pr.Panic.Msg, core.Witness{Ver: ver, Cfg: map[string]string{"shape": sh.name, "bytes": strconv.Itoa(len(src))}})
				return 0, false
			}
			if best < 0 || t < best {
				best = t
			}
		}
		return best, true
	}
	small, big := sh.make(n), sh.make(8*n)
	quad := 0
	var ts, tb float64
	for round := 0; round < 3; round++ {
		var ok bool
		if ts, ok = measure(small); !ok {
			return
		}
		if tb, ok = measure(big); !ok {
			return
		}
		// linear: tb ~ 8 ts. quadratic: tb ~ 64 ts. Alarm above 28x, and only when the time is measurable.
		if tb > 28*ts+0.25 {
			quad++
		} else {
			break
		}
	}
	c.Add("scaling_pairs_measured", 1)
	c.Cover("scaling_shapes", sh.name)
	c.Max("max_cpu_ms_on_a_stress_input", int64(tb*1000))
	w := core.Witness{Ver: ver, Cfg: map[string]string{"shape": sh.name, "bytes_small": strconv.Itoa(len(small)), "bytes_big": strconv.Itoa(len(big))}}
	switch {
	case quad == 3:
		c.Violation("scaling|"+sh.name, fmt.Sprintf("CPU time is not proportional to the input length: %s of %d bytes takes %.3fs, of %d bytes %.3fs (x%.0f for x8 input), three times in a row", sh.name, len(small), ts, len(big), tb, tb/ts), w)
	case quad > 0:
		c.Inconclusive("super-linear CPU time seen but not three times in a row (" + sh.name + ")")
	}
	c.NonTrivial([]byte("scaling"), []byte(sh.name), []byte(ver), []byte(strconv.Itoa(n)))
}

// c01Proportion: hook step counts on k-fold replications of a valid body.
func c01Proportion(c *core.Ctx, r *core.Rand, ver string) {
	bs := gen.Bodies()
	var body string
	for i := 0; i < 50; i++ {
		body = bs[r.Intn(len(bs))]
		if bodyParses(body) {
			break
		}
	}
	prev := int64(0)
	for k := 1; k <= 64; k *= 2 {
		src := []byte("<?php\n" + strings.Repeat(body+"\n", k))
		if len(src) > 1<<20 {
			break
		}
		var o c01Obs
		c.Inflight(src[:min(len(src), 4096)], fmt.Sprintf("C01 proportionality k=%d", k))
		c01Parse(c, src, ver, true, &o)
		if o.panics > 0 {
			return
		}
		if o.steps == 0 {
			c.Inconclusive("hook counters unavailable (VERIF_STATS not active)")
			return
		}
		if prev > 0 && float64(o.steps) > 2.2*float64(prev)+64 {
			c.Violation("steps|superlinear", fmt.Sprintf("hook steps grew from %d to %d when the input was doubled (k=%d)", prev, o.steps, k), core.W([]byte(body), ver).With("replications", strconv.Itoa(k)))
			return
		}
		prev = o.steps
	}
	c.Add("proportionality_series", 1)
	c.NonTrivial([]byte("prop"), []byte(body), []byte(ver))
}

func init() {
	core.Register(&core.Check{
		ID:   "C01",
		Rule: "cases = known-finding witnesses ++ per index one of: hostile G3 input (prefix of a corpus snippet or generated program at every cut point class, token soup over lexically loaded fragments, byte mutations, splices, random bytes), every torture/corpus snippet once, the complete enumeration torture snippet x position x one inserted byte of 20 lexically loaded bytes, a k-fold replication series (hook-step proportionality), an adversarial size-parametrised shape measured at n and 8n (CPU scaling); each input is parsed under one 5.x and one 7.x version (plus sometimes a third or the nil version) x {callback, nil callback}; non-trivial = non-empty input; distinct by input bytes",
		Assumptions: []string{
			"the verif hooks sit on every non-advancing path of the lexer (setTokenPosition, addFreeFloatingToken, ungetCnt, call, ret) and on token delivery in both parsers; budgets 8n+64 steps / n+8 tokens",
			"Go turns every out-of-bounds access into a panic, which the monitor recovers and attributes to the first repository frame",
			"CPU-time verdicts need three consecutive confirmations in the same process; anything less is reported as inconclusive",
		},
		Env:     func(p core.Params) []string { return []string{"VERIF_STATS=1"} },
		CaseCPU: 60,
		Plan: func(p core.Params) int {
			return len(gen.Corpus()) + c01CtxCases(p) + gen.InsCount() + p.Pick(90000, 4000000)
		},
		Exhaustive: func(p core.Params) bool { return false },
		Run: func(c *core.Ctx, idx int) {
			cor := gen.Corpus()
			if idx < len(cor) {
				src := []byte(cor[idx].Src)
				c01Case(c, src, []string{"5.6", "7.4", "7.2", "5.3"}, "corpus")
				return
			}
			idx -= len(cor)
			if n := c01CtxCases(c.P); idx < n {
				// the context x byte space: complete in the thorough tier, a seed-rotated half in quick
				k := idx
				if !c.P.Thorough() {
					k = idx*c01CtxDiv + int(uint64(c.P.Seed)%c01CtxDiv)
				}
				if k < gen.CtxBytesCount() {
					src := gen.CtxBytes(k)
					vs := []string{"5.6", "7.4"}
					if k%3 == 0 {
						vs = []string{"5.3", "7.2"}
					}
					c01Case(c, src, vs, "context-x-byte")
				}
				return
			}
			idx -= c01CtxCases(c.P)
			if idx < gen.InsCount() {
				// snippet x position x inserted byte: complete in both tiers
				vs := []string{"5.6", "7.4"}
				if idx%5 == 0 {
					vs = []string{"5.4", "7.2"}
				}
				c01Case(c, gen.InsInput(idx), vs, "snippet-x-position-x-inserted-byte")
				return
			}
			idx += len(cor) - gen.InsCount()
			r := core.NewRand(c.P.Seed, "C01", idx)
			switch k := idx % 400; {
			case k == 7:
				c01Proportion(c, r, pickVersion(r))
			case k%50 == 13:
				sizes := []int{2048, 8192, 8192}
				if c.P.Thorough() {
					// (not larger: a pair is measured at n and 8n, and the recorded quadratic shape — unterminated comment
					// openers, 5.4 s at 120 KB — needs minutes of CPU at 1 MB; the verdict is the same at 128 KB. The first
					// thorough run with 131072 had the watchdog confirm "hangs" that were that known finding at 1 MB.)
					sizes = []int{2048, 8192, 16384}
				}
				c01Scaling(c, r.Intn(len(c01Shapes)), pickVersion(r), sizes[r.Intn(len(sizes))])
			case k == 21:
				// a big stress shape through the full set of per-call monitors
				sh := c01Shapes[r.Intn(len(c01Shapes))]
				n := c.P.Pick(20000, 60000)
				c01Case(c, sh.make(r.Range(n/2, n)), c01Versions(r), "shape:"+sh.name)
			default:
				var prog func(*core.Rand) []byte
				if extraProgram != nil {
					prog = func(rr *core.Rand) []byte { return extraProgram(rr, 5+2*rr.Intn(2), rr.Bool()) }
				}
				c01Case(c, gen.Hostile(r, prog), c01Versions(r), "hostile")
			}
		},
		RunWitness: func(c *core.Ctx, w core.Witness) {
			if name := w.Cfg["shape"]; name != "" {
				for i, sh := range c01Shapes {
					if sh.name == name {
						n, _ := strconv.Atoi(w.Cfg["bytes_small"])
						c01Scaling(c, i, w.Ver, n)
					}
				}
				return
			}
			vs := []string{w.Ver}
			if w.Ver == "" {
				vs = []string{"5.6", "7.4"}
			}
			if w.Cfg["all_versions"] == "1" {
				vs = gen.VersionsAll
			}
			c01Case(c, w.Src, vs, "witness")
		},
		MinNonTrivial: 1000,
		Require: func(p core.Params, r *core.Result) string {
			if r.Counters["hook_steps_observed"] == 0 {
				return "the verif hooks were never reached (library not built with -tags verif, or VERIF_STATS not active): hang detection would be blind"
			}
			if r.Counters["proportionality_series"] == 0 || r.Counters["scaling_pairs_measured"] == 0 {
				return "no proportionality series / scaling pair was measured"
			}
			return ""
		},
	})
}
