package mon

import (
	"fmt"
	"strings"

	"verif/harness/core"
	"verif/harness/gen"
	"verif/harness/obs"

	"github.com/z7zmey/php-parser/pkg/ast"
)

// C07 — a syntax error costs only the statement it is in.
//
// (1) Recovery: a generated valid program (PHP mode only) gets one benign malformed
//     statement M inserted at a statement boundary of one of its statement lists (top
//     level, function/method/closure bodies, blocks, alternative-syntax bodies, case
//     bodies, try/catch/finally, braced namespaces). Both the clean and the broken
//     source are parsed (canonical layout, so the bytes before M are identical):
//       - an error must be delivered;
//       - if a tree is returned: the list that contained the boundary must still exist
//         (same kind, same start offset), its statements before M must be identical to
//         the clean parse (full fingerprint: tokens, positions), and the statements
//         after M must follow (structure).
// (2) Provenance: every tree returned together with errors (recovery cases and hostile
//     inputs) is printed through the provenance writer: every chunk either points into
//     the source — each source byte at most once, in increasing order — or is printer
//     glue ("<?php ", one blank, "?>").

type stmtList struct {
	node  ast.Vertex
	kind  string
	start int // start offset of the node; for a brace-less (alternative syntax) body: of its parent
	end   int
	alt   bool
	stmts []ast.Vertex
}

// stmtLists collects the statement lists (kinds with an error production) of a tree.
func stmtLists(root ast.Vertex) []stmtList {
	var out []stmtList
	obs.Walk(root, func(n, parent ast.Vertex, _ string, _ int) bool {
		k := obs.Kind(n)
		if !gen.StmtListKinds[k] {
			return true
		}
		alt := false
		if sl, ok := n.(*ast.StmtStmtList); ok && sl.OpenCurlyBracketTkn == nil {
			alt = true
		}
		for _, f := range obs.Fields(n) {
			if f.Name == "Stmts" && f.Kind == obs.FNodes {
				st, en := nodeSpan(n)
				if alt {
					// a brace-less body has no token of its own: it is identified through its parent
					st, en = nodeSpan(parent)
				}
				out = append(out, stmtList{n, k, st, en, alt, f.Nodes})
			}
		}
		return true
	})
	return out
}

func nodeSpan(n ast.Vertex) (int, int) {
	if obs.IsNil(n) {
		return -1, -1
	}
	p := n.GetPosition()
	if p == nil {
		return -1, -1
	}
	return p.StartPos, p.EndPos
}

var printerGlue = map[string]bool{"<?php ": true, " ": true, "?>": true}

// checkProvenance prints a tree returned with errors and validates the chunks.
func checkProvenance(c *core.Ctx, root ast.Vertex, src []byte, ver string) bool {
	w := core.W(src, ver)
	fam := fmt.Sprintf("fam%d", obs.Fam(ver))
	pv, pn := printTree(root, src)
	if pn != nil {
		c.Violation(pn.Sig, "printer panicked on a tree returned with errors: "+pn.Msg, w)
		return false
	}
	last := 0
	c.Add("recovery_trees_printed", 1)
	for i, ch := range pv.Chunks {
		if len(ch.Data) == 0 {
			continue
		}
		if ch.Off < 0 {
			if !printerGlue[string(ch.Data)] {
				g := string(ch.Data)
				if len(g) > 16 {
					g = g[:16]
				}
				c.Violation("provenance|invented-text|"+fam+"|"+fmt.Sprintf("%q", g), fmt.Sprintf("printing the tree returned with errors writes %q (chunk %d), which is neither source text nor printer glue", ch.Data, i), w)
				return false
			}
			continue
		}
		if ch.Off < last {
			cls := "reordered"
			if ch.Off+len(ch.Data) > 0 && ch.Off < last {
				cls = "duplicated-or-reordered"
			}
			c.Violation("provenance|"+cls+"|"+fam+"|"+slotAt(root, ch.Off), fmt.Sprintf("printing the tree returned with errors writes source bytes %d..%d %q after bytes up to %d were already written", ch.Off, ch.Off+len(ch.Data), trunc(string(ch.Data), 40), last), w)
			return false
		}
		last = ch.Off + len(ch.Data)
		c.Add("source_chunks_checked", 1)
	}
	return true
}

func c07Recovery(c *core.Ctx, idx int) {
	r := core.NewRand(c.P.Seed, "C07", idx)
	fam := 7
	if r.Chance(2, 5) {
		fam = 5
	}
	g := gen.NewG(r.Split("prog"), gen.Opts{Fam: fam, NoHTML: true, MaxDepth: r.Range(2, 4), MaxStmts: 6})
	root := g.Program()
	ver := progVersion(r, fam, false)
	if root.HasFlag(gen.FFlex73) {
		ver = "7.4"
	}
	toks := root.Tokens()
	sites := gen.ListSites(root)
	if len(sites) == 0 {
		c.Inconclusive("program without statement list")
		return
	}
	clean := gen.Render(toks, gen.LayCanon, r, nil)
	cp := obs.Parse(clean, ver, true)
	if cp.Panic != nil || len(cp.Errors) > 0 || cp.Root == nil {
		c.Inconclusive("clean program not accepted (C03's business)")
		return
	}
	cleanLists := stmtLists(cp.Root)
	tries := c.P.Pick(4, 12)
	for k := 0; k < tries; k++ {
		site := sites[r.Intn(len(sites))]
		bi := r.Intn(len(site.Boundaries))
		j := site.Boundaries[bi]
		m := gen.Benign[r.Intn(len(gen.Benign))]
		for m[0] == "}" && site.Kind != "Root" {
			m = gen.Benign[r.Intn(len(gen.Benign))]
		}
		var mt []gen.Tok
		for _, s := range m {
			mt = append(mt, gen.Tok{S: s})
		}
		bt := append(append(append([]gen.Tok{}, toks[:j]...), mt...), toks[j:]...)
		broken := gen.Render(bt, gen.LayCanon, r, nil)
		off := len(gen.Render(toks[:j], gen.LayCanon, r, nil))
		if off > len(clean) || string(broken[:off]) != string(clean[:off]) {
			core.Fail("C07: canonical rendering is not prefix-stable")
		}
		w := core.W(broken, ver).With("malformed_statement", strings.Join(m, " ")).With("inserted_at_offset", fmt.Sprint(off)).With("list_kind", site.Kind)
		c.Inflight(broken, "C07 parse "+ver)
		bp := obs.Parse(broken, ver, true)
		c.Add("recovery_cases", 1)
		c.Cover("list_kinds", site.Kind)
		c.Cover("malformed_statements", strings.Join(m, " "))
		if bp.Panic != nil {
			c.Add("parses_that_panicked(C01's business)", 1)
			continue
		}
		sigBase := fmt.Sprintf("recovery|fam%d|%s|M=%s|", fam, site.Kind, strings.Join(m, ""))
		if len(bp.Errors) == 0 {
			c.Violation(sigBase+"no-error", "a malformed statement was inserted but no error was delivered", w)
			return
		}
		if bp.Root == nil {
			c.Add("recovery_cases_without_tree", 1)
			continue
		}
		// the clean list containing the boundary: innermost list whose statements split around off
		var cl *stmtList
		split := 0
		for i := range cleanLists {
			l := &cleanLists[i]
			s, e := l.start, l.end
			if l.kind != "Root" && (s < 0 || e < 0 || off < s || off > e) {
				continue
			}
			sp, ok := 0, true
			for q, st := range l.stmts {
				a, b := nodeSpan(st)
				if a < 0 || b < 0 {
					ok = false
					break
				}
				if b <= off {
					sp = q + 1
				} else if a < off {
					ok = false // off falls inside a statement: not this list
					break
				}
			}
			if !ok || l.kind != site.Kind || len(l.stmts) != site.NStmts || sp != bi {
				continue
			}
			if cl == nil || l.start >= cl.start {
				cl, split = l, sp
			}
		}
		if cl == nil {
			c.Inconclusive("insertion point not located in the clean tree")
			continue
		}
		// the same list in the broken tree: same kind and start offset; an alternative-syntax body and a
		// block that is its first statement share both, so the position among such candidates counts too
		var bl *stmtList
		brokenLists := stmtLists(bp.Root)
		ci := 0
		for i := range cleanLists {
			l := &cleanLists[i]
			if l == cl {
				break
			}
			if l.kind == cl.kind && l.start == cl.start && l.alt == cl.alt {
				ci++
			}
		}
		for i := range brokenLists {
			l := &brokenLists[i]
			if l.kind == cl.kind && l.start == cl.start && l.alt == cl.alt {
				if ci == 0 {
					bl = l
					break
				}
				ci--
			}
		}
		if cl.kind == "Root" {
			bl = &stmtList{node: bp.Root, kind: "Root"}
			for _, f := range obs.Fields(bp.Root) {
				if f.Name == "Stmts" {
					bl.stmts = f.Nodes
				}
			}
		}
		if bl == nil {
			c.Violation(sigBase+"list-lost", fmt.Sprintf("the %s that contained the malformed statement (start offset %d) is not in the returned tree any more: the error cost more than the statement it is in", cl.kind, cl.start), w)
			return
		}
		if len(bl.stmts) < split {
			c.Violation(sigBase+"preceding-lost", fmt.Sprintf("%d well-formed statements precede the malformed one in its %s, the returned list has only %d", split, cl.kind, len(bl.stmts)), w)
			return
		}
		for q := 0; q < split; q++ {
			a, b := obs.Fingerprint(cl.stmts[q], false), obs.Fingerprint(bl.stmts[q], false)
			if a != b {
				c.Violation(sigBase+"preceding-changed|"+obs.Kind(cl.stmts[q]), fmt.Sprintf("statement #%d before the malformed one differs from the clean parse: %s", q, obs.FirstDiff(a, b)), w)
				return
			}
		}
		after := cl.stmts[split:]
		if len(bl.stmts)-split < len(after) {
			c.Violation(sigBase+"following-lost", fmt.Sprintf("%d statements follow the malformed one in its %s, only %d are left in the returned list", len(after), cl.kind, len(bl.stmts)-split), w)
			return
		}
		tail := bl.stmts[len(bl.stmts)-len(after):]
		for q := range after {
			a, b := obs.StructureCanon(after[q]), obs.StructureCanon(tail[q])
			if a != b {
				c.Violation(sigBase+"following-changed|"+obs.Kind(after[q]), fmt.Sprintf("statement #%d after the malformed one differs in structure from the clean parse: %s", q, obs.FirstDiff(a, b)), w)
				return
			}
		}
		c.Add("preceding_statements_compared", int64(split))
		c.Add("following_statements_compared", int64(len(after)))
		if !checkProvenance(c, bp.Root, broken, ver) {
			return
		}
		if c.WantSample() && len(broken) < 220 {
			c.Sample(map[string]interface{}{"clean": string(clean), "broken": string(broken), "malformed_statement": strings.Join(m, " "), "list": cl.kind, "statements_before": split, "statements_after": len(after), "errors": obs.ErrStrings(bp.Errors), "version": ver})
		}
	}
	c.Cover("family", fmt.Sprint(fam))
	c.NonTrivial(clean, []byte(ver))
}

func c07Hostile(c *core.Ctx, src []byte, ver string) {
	c.Inflight(src, "C07 parse "+ver)
	pr := obs.Parse(src, ver, true)
	if pr.Panic != nil || pr.Root == nil || len(pr.Errors) == 0 {
		return
	}
	if checkProvenance(c, pr.Root, src, ver) {
		c.NonTrivial(src, []byte(ver))
	}
}

func init() {
	core.Register(&core.Check{
		ID:   "C07",
		Rule: "cases = known-finding witnesses ++ alternately (a) a generated valid PHP-mode program with 4 (quick) / 12 (thorough) independent insertions of a benign malformed statement (17 shapes such as ') ;', '$x = ;', 'foo( ;') at a PRNG statement boundary of a PRNG statement list, compared with the clean parse, and (b) a hostile G3 input whose parse returns a tree together with errors, printed through the provenance writer; non-trivial = recovery program whose insertions were all compared / hostile tree printed; distinct by (clean text, version) / (input, version)",
		Assumptions: []string{
			"benign malformed statements cannot extend the preceding statement nor start a valid one and end in ';'",
			"printer glue = '<?php ', one blank, '?>'; every other chunk must alias the source buffer (token values are slices of it)",
			"class/interface/trait member lists have no error production and are not used as insertion lists",
		},
		Plan: func(p core.Params) int { return p.Pick(80000, 1500000) },
		Run: func(c *core.Ctx, idx int) {
			if idx%2 == 0 {
				c07Recovery(c, idx)
				return
			}
			pc := genParseCase(c.P.Seed, "C07h", idx, 90)
			c07Hostile(c, pc.Src, pc.Ver)
		},
		RunWitness:    func(c *core.Ctx, w core.Witness) { c07Hostile(c, w.Src, w.Ver) },
		MinNonTrivial: 500,
	})
}
