package mon

import (
	"sync"

	"verif/harness/core"
	"verif/harness/gen"

	"github.com/z7zmey/php-parser/pkg/ast"
)

// synthCase is one (node kind, slot subset) of the G5 enumeration.
type synthCase struct {
	Kind    string
	Present []bool
	Exhaust bool // the kind's subsets were enumerated completely
}

var (
	synthOnce  sync.Once
	synthList  []synthCase
	synthKinds int
	synthFull  int
)

// synthCases enumerates, for every node kind of the current ast.Visitor, the slot
// subsets of gen.Subsets. The list only depends on the repository's node types and
// on the tier (number of extra PRNG subsets for kinds with more than 12 slots).
func synthCases(p core.Params) []synthCase {
	synthOnce.Do(func() {
		for _, k := range NodeKinds {
			zero := NewNode(k)
			if zero == nil {
				core.Fail("NewNode(%q) = nil", k)
			}
			slots := gen.Slots(zero)
			r := core.NewRand(p.Seed, "synth-subsets", k)
			subs := gen.Subsets(len(slots), r, p.Pick(200, 4000))
			synthKinds++
			if len(slots) <= 12 {
				synthFull++
			}
			for _, s := range subs {
				synthList = append(synthList, synthCase{k, s, len(slots) <= 12})
			}
		}
	})
	return synthList
}

func zeroOf(kind string) ast.Vertex { return NewNode(kind) }

// methodOf maps a node type name to its ast.Visitor method name.
var methodOf = func() map[string]string {
	m := map[string]string{}
	for i, k := range NodeKinds {
		m[k] = VisitorMethods[i]
	}
	return m
}()

func presentString(zero ast.Vertex, present []bool) string {
	s := ""
	for i, sl := range gen.Slots(zero) {
		if present[i] {
			if s != "" {
				s += ","
			}
			s += sl.Name
		}
	}
	return s
}
