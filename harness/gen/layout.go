package gen

import (
	"bytes"
	"fmt"
	"strings"

	"verif/harness/core"
)

// G2 — trivia renderer: one token sequence under many layouts.

const (
	LayCanon    = iota // one blank in every free gap
	LayMinimal         // nothing wherever two tokens cannot fuse, one blank otherwise
	LayLF              // random blanks and LF
	LayCRLF            // random blanks and CRLF
	LayCR              // random blanks and lone CR (the scanner rejects lone CR between PHP tokens: known finding)
	LayComments        // comment-heavy, all comment styles
	LayMixed           // everything mixed, all three line terminators except lone CR
	LayMixedCR         // everything mixed including lone CR
	NumLayouts
)

var LayoutNames = [NumLayouts]string{"canon", "minimal", "lf", "crlf", "cr", "comments", "mixed", "mixed-cr"}

func punct(s string) bool {
	switch s {
	case "(", ")", "[", "]", "{", "}", ",", ";", "":
		return true
	}
	return false
}

// canTouch: the two tokens may be written without anything between them.
func canTouch(prev, next string) bool {
	if prev == "" || next == "" {
		return true
	}
	if punct(prev) || punct(next) {
		return true
	}
	// an operator character followed by a variable, a number, a name or a quote cannot fuse into another token:
	// "-1", "!$a", "=$b", "*foo", "&$x" ('.' is not in the set: ". 5" and ".5" differ; "<" is not: "<?")
	lc, fc := prev[len(prev)-1], next[0]
	if strings.IndexByte("-+*/%!~@=>&|^", lc) >= 0 && (fc == '$' || fc == '\'' || fc == '"' || fc >= '0' && fc <= '9' || fc >= 'a' && fc <= 'z' || fc >= 'A' && fc <= 'Z' || fc == '_') {
		// the pair must not be two halves of one token: "=>" "->" end in '>' and are whole tokens themselves, fine;
		// but a cast-like or tag-like start is excluded by the character classes above
		return true
	}
	return false
}

// Placeholders inside a token text, expanded by the renderer: a token such as a cast, 'yield from' or a
// heredoc opener is ONE token for the scanner but admits blanks inside; which blanks is a layout choice.
const (
	OptHB   = "\x00" // optional horizontal blanks ([ \t]*): nothing in the canonical and minimal layouts
	ReqWS   = "\x01" // mandatory whitespace incl. line terminators: one blank in the canonical and minimal layouts
	OptWSNL = "\x02" // optional whitespace incl. line terminators (between ';' and '?>'): one blank in the canonical layout, nothing in the minimal one
)

// PlainTok renders a token text with its placeholders in canonical form.
func PlainTok(s string) string {
	return strings.ReplaceAll(strings.ReplaceAll(strings.ReplaceAll(s, OptHB, ""), ReqWS, " "), OptWSNL, " ")
}

func (l *layouter) expand(s string) string {
	if !strings.ContainsAny(s, OptHB+ReqWS+OptWSNL) {
		return s
	}
	if l.mode == LayMinimal {
		return strings.ReplaceAll(PlainTok(strings.ReplaceAll(s, OptWSNL, "\x03")), "\x03", "")
	}
	if l.mode == LayCanon {
		return PlainTok(s)
	}
	var sb strings.Builder
	for i := 0; i < len(s); i++ {
		switch s[i] {
		case 0:
			b := l.r.Pick("", "", " ", "\t", "  ", "\t ", " \t  ")
			sb.WriteString(b)
			l.stat("inside-token-optional", fmt.Sprintf("%q", b))
		case 2:
			nl := l.nl()
			if nl == "\r" {
				nl = "\r\n"
			}
			b := l.r.Pick("", " ", "\t", "  ", nl, " "+nl+"\t", nl+nl, "\t\t", "\t ", " \t", nl+"\t", "\t"+nl)
			sb.WriteString(b)
			l.stat("inside-token-optional-ws-nl", fmt.Sprintf("%q", b))
		case 1:
			nl := l.nl()
			if nl == "\r" {
				nl = "\r\n"
			}
			b := l.r.Pick(" ", "\t", "  ", nl, " "+nl+"\t", nl+nl)
			sb.WriteString(b)
			l.stat("inside-token-mandatory", fmt.Sprintf("%q", b))
		default:
			sb.WriteByte(s[i])
		}
	}
	return sb.String()
}

type layouter struct {
	r    *core.Rand
	mode int
	// statistics: gap class x trivia class
	Stats map[string]int
}

func (l *layouter) nl() string {
	switch l.mode {
	case LayCRLF:
		return "\r\n"
	case LayCR:
		return "\r"
	case LayMixed:
		return l.r.Pick("\n", "\r\n")
	case LayMixedCR:
		return l.r.Pick("\n", "\r\n", "\r")
	}
	return "\n"
}

func (l *layouter) blank() string {
	switch l.r.Intn(6) {
	case 0:
		return "\t"
	case 1:
		return "  "
	case 2, 3:
		return l.nl()
	case 4:
		return l.nl() + "    "
	}
	return " "
}

func (l *layouter) comment() string {
	switch l.r.Intn(10) {
	case 0:
		return "/* c */"
	case 1:
		return "/**/"
	case 2:
		return "/** doc */"
	case 3:
		return "/* multi" + l.nl() + " line */"
	case 4:
		return "// " + l.r.Pick("line comment", "why? because", "a > b", "k => v, $o->p", "?", "? >", ">", "<?php x", "it's \"q\" `b`", "/* not closed", "*/", "{ ( [", "\\") + l.nl()
	case 5:
		return "# " + l.r.Pick("hash comment", "really?", "a->b > c", "?", ">", "$x = <<<A", "é ü") + l.nl()
	case 6:
		return "//" + l.nl()
	case 7:
		return "#" + l.nl()
	case 8:
		return "/** @var int $x" + l.nl() + " */"
	}
	return "/* $a = 1; \" ' ` <?php */"
}

func (l *layouter) stat(gap, cls string) {
	if l.Stats != nil {
		l.Stats[gap+":"+cls]++
	}
}

// free returns trivia for a free gap; it is non-empty unless empty is allowed.
func (l *layouter) free(emptyOK bool) string {
	switch l.mode {
	case LayCanon:
		return " "
	case LayMinimal:
		if emptyOK {
			return ""
		}
		return " "
	}
	var sb bytes.Buffer
	n := l.r.Intn(3)
	if l.mode == LayComments {
		n = l.r.Range(1, 3)
	}
	if emptyOK && l.r.Chance(1, 3) {
		l.stat("free", "nothing")
		return ""
	}
	for i := 0; i < n; i++ {
		if (l.mode == LayComments && l.r.Chance(2, 3)) || ((l.mode == LayMixed || l.mode == LayMixedCR) && l.r.Chance(1, 3)) {
			c := l.comment()
			sb.WriteString(c)
			l.stat("free", "comment:"+c[:2])
		} else {
			sb.WriteString(l.blank())
			l.stat("free", "blank")
		}
	}
	if sb.Len() == 0 && !emptyOK {
		sb.WriteString(l.blank())
	}
	return sb.String()
}

// Render writes the token sequence under a layout.
func Render(toks []Tok, mode int, r *core.Rand, stats map[string]int) []byte {
	b, _ := RenderPos(toks, mode, r, stats)
	return b
}

// NoTrailing suppresses the optional trivia after the last token (set by single-threaded callers
// around a Render call; the formatter check needs layouts that differ only between tokens).
var NoTrailing bool

// RenderPos is Render that also returns the byte offset at which each token starts.
func RenderPos(toks []Tok, mode int, r *core.Rand, stats map[string]int) ([]byte, []int) {
	l := &layouter{r: r, mode: mode, Stats: stats}
	offs := make([]int, 0, len(toks))
	var out bytes.Buffer
	prev := ""
	first := true
	for ti, tk := range toks {
		lastCarrier := NoTrailing && ti == len(toks)-1 && tk.S == ""
		switch tk.Gap {
		case GapNone:
		case GapNeedWS:
			if mode == LayCanon || mode == LayMinimal {
				out.WriteString(" ")
			} else {
				b := l.r.Pick(" ", "\t", l.nl())
				if b == "\r" {
					b = "\r\n" // "<?php\r" + code: keep the open tag itself well-formed in every layout
				}
				out.WriteString(b)
				out.WriteString(l.free(true))
			}
			l.stat("after-open-tag", "blank")
		case GapNL:
			nl := l.nl()
			if nl == "\r" {
				nl = "\r\n"
			}
			if lastCarrier {
				nl = "\n"
			}
			out.WriteString(nl)
			if mode != LayCanon && mode != LayMinimal && !lastCarrier {
				out.WriteString(l.free(true))
			}
			l.stat("after-heredoc", "newline")
		case GapBlank:
			if mode != LayCanon && mode != LayMinimal && l.r.Bool() {
				out.WriteString(l.blank())
				l.stat("blank-only", "blank")
			} else if mode == LayCanon && !canTouch(prev, tk.S) {
				out.WriteString(" ")
			}
		default:
			if !first {
				tr := l.free(canTouch(prev, tk.S))
				// a comment directly after a '/' token would turn "/" + "/*" into a line comment
				if len(tr) > 0 && len(prev) > 0 && tr[0] == '/' && (prev[len(prev)-1] == '/' || prev[len(prev)-1] == '<') {
					tr = " " + tr
				}
				out.WriteString(tr)
			}
		}
		offs = append(offs, out.Len())
		ts := l.expand(tk.S)
		out.WriteString(ts)
		if ts != "" {
			prev = ts
		}
		first = false
	}
	// trailing trivia (attached to the end token)
	if mode != LayCanon && mode != LayMinimal && r.Chance(1, 3) && !NoTrailing {
		out.WriteString(l.free(true))
	}
	return out.Bytes(), offs
}
