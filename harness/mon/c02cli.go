package mon

import (
	"bytes"
	"fmt"
	"os"
	"os/exec"
	"path/filepath"

	"verif/harness/core"
	"verif/harness/obs"
)

// c02CLI — the property names the command-line tool: "-pb" overwrites user files with the printer's
// output. One case = one run of the real CLI (built from the working tree by ./check) over a generated
// directory of sources that parse silently under the chosen version; afterwards every file must hold
// exactly the bytes it held before. The directory mixes what the printer's mode logic has to tell
// apart: files that begin with inline HTML, with a shebang line, with an open tag; files that end in
// PHP mode, in "?>", in "?>" + newline, in trailing HTML — so that whatever the tool carries over from
// one file to the next (printer state, buffers) meets every kind of successor.
func c02CLI(c *core.Ctx, idx int) {
	bin := filepath.Join(core.BinDir(), "php-parser")
	if _, err := os.Stat(bin); err != nil {
		core.Fail("C02: CLI build missing (%s)", bin)
	}
	r := core.NewRand(c.P.Seed, "C02cli", idx)
	ver := []string{"7.4", "5.6", "7.2", "7.3", "5.3"}[idx%5]
	dir := filepath.Join(core.WorkDir(), "C02-cli", fmt.Sprintf("run%d-%d", idx, os.Getpid()))
	os.RemoveAll(dir)
	defer os.RemoveAll(dir)
	type f struct {
		path string
		src  []byte
	}
	var files []f
	heads := []string{"", "", "", "<html>\n<body>\n", "#!/usr/bin/env php\n", "x ", "<b>t</b>\r\n"}
	tails := []string{"", "", "\n", " ?>", " ?>\n", " ?>\r\ntrailing <i>html</i>\n", " ?><p>\n"}
	want := c.P.Pick(160, 600)
	for i := 0; len(files) < want && i < want*6; i++ {
		pc := genParseCase(c.P.Seed, "C02clifile", idx*100000+i, 0)
		src := pc.Src
		if len(src) > 30000 {
			continue
		}
		if r.Chance(1, 2) {
			src = append(append([]byte(heads[r.Intn(len(heads))]), src...), tails[r.Intn(len(tails))]...)
		}
		pr := obs.Parse(append([]byte(nil), src...), ver, true)
		if pr.Panic != nil || pr.Root == nil || len(pr.Errors) > 0 {
			continue
		}
		// what the library prints for this file alone is C02's in-process business (known findings live there)
		if pv, pp := printTree(pr.Root, src); pp != nil || !bytes.Equal(pv.Buf.Bytes(), src) {
			c.Add("cli_candidates_skipped(in-process print differs: judged by the in-process cases)", 1)
			continue
		}
		sub := filepath.Join(dir, fmt.Sprintf("d%d", len(files)%5))
		os.MkdirAll(sub, 0o755)
		p := filepath.Join(sub, fmt.Sprintf("f%04d.php", len(files)))
		if os.WriteFile(p, src, 0o644) != nil {
			core.Fail("C02: cannot write %s", p)
		}
		files = append(files, f{p, src})
		switch {
		case bytes.HasPrefix(src, []byte("#!")):
			c.Cover("cli_file_starts", "shebang")
		case bytes.HasPrefix(src, []byte("<?")):
			c.Cover("cli_file_starts", "open tag")
		default:
			c.Cover("cli_file_starts", "inline html")
		}
		switch {
		case bytes.HasSuffix(src, []byte("?>")), bytes.HasSuffix(src, []byte("?>\n")):
			c.Cover("cli_file_ends", "close tag")
		case bytes.Contains(src[max(0, len(src)-40):], []byte("?>")):
			c.Cover("cli_file_ends", "html after close tag")
		default:
			c.Cover("cli_file_ends", "php mode or plain html")
		}
	}
	procs := []string{"1", "2", "16"}[r.Intn(3)]
	cmd := exec.Command(bin, "-pb", "-phpver", ver, dir)
	cmd.Env = append(os.Environ(), "GOMAXPROCS="+procs)
	var stdout, stderr bytes.Buffer
	cmd.Stdout, cmd.Stderr = &stdout, &stderr
	c.Inflight([]byte(dir), "C02 CLI run")
	err := cmd.Run()
	w := core.Witness{Cfg: map[string]string{"cli": "php-parser -pb -phpver " + ver + " <dir>", "files": fmt.Sprint(len(files)), "GOMAXPROCS": procs}}
	c.Add("cli_runs", 1)
	c.Cover("cli_version", ver)
	c.Cover("cli_gomaxprocs", procs)
	if err != nil {
		c.Violation("cli|exit", "the CLI exited with "+err.Error()+": "+trunc(stderr.String(), 300), w)
		return
	}
	for _, fl := range files {
		got, _ := os.ReadFile(fl.path)
		c.Add("cli_files_compared", 1)
		if !bytes.Equal(got, fl.src) {
			c.Violation("cli|print-back-changes-file|"+c02DiffClass(fl.src, got), fmt.Sprintf("php-parser -pb rewrote a file that parses without errors with different bytes: %s", obs.FirstDiff(string(fl.src), string(got))), core.W(fl.src, ver).With("cli", w.Cfg["cli"]).With("files_in_run", fmt.Sprint(len(files))))
			return
		}
	}
	if len(files) >= 50 {
		c.NonTrivial([]byte("cli"), []byte(fmt.Sprint(idx)))
	}
}

func c02DiffClass(want, got []byte) string {
	switch {
	case len(got) > len(want) && bytes.HasSuffix(got, want):
		return "text-inserted-at-start"
	case len(got) > len(want) && bytes.HasPrefix(got, want):
		return "text-appended"
	case len(got) < len(want):
		return "bytes-lost"
	}
	return "bytes-differ"
}
