package mon

import (
	"fmt"

	"verif/harness/core"
	"verif/harness/obs"

	"github.com/z7zmey/php-parser/pkg/ast"
)

// C05 — node positions span exactly the node's own tokens and nest properly.
// The monitor itself is checkSpans (spans.go); it only applies to error-free parses.

// an error-free tree returned earlier is checked a second time after the next, unrelated Parse call: its
// positions must still be what they were (position storage recycled or shared between parses shows here)
var c05Prev struct {
	root ast.Vertex
	src  []byte
	ver  string
	fp   string
}

func c05Case(c *core.Ctx, pc parseCase) {
	c.Inflight(pc.Src, "C05 parse "+pc.Ver)
	pr := obs.Parse(pc.Src, pc.Ver, true)
	if c05Prev.root != nil {
		if now := obs.Fingerprint(c05Prev.root, false); now != c05Prev.fp {
			c.Violation("span|earlier-tree-changed-by-later-parse|"+c13Where(c05Prev.fp, now), "the positions of a tree returned by an earlier Parse call changed while a later, unrelated Parse call ran: "+obs.FirstDiff(c05Prev.fp, now), core.W(c05Prev.src, c05Prev.ver).With("later_input", obsQuote(pc.Src, 200)))
		}
		c.Add("earlier_trees_re-read_after_a_later_parse", 1)
		c05Prev.root = nil
	}
	if pr.Panic == nil && pr.Root != nil && len(pr.Errors) == 0 && len(pc.Src) < 6000 {
		c05Prev.root, c05Prev.src, c05Prev.ver = pr.Root, pc.Src, pc.Ver
		c05Prev.fp = obs.Fingerprint(pr.Root, false)
	}
	if pr.Panic != nil || pr.Root == nil {
		c.Add("parses_without_tree_or_panicked", 1)
		return
	}
	if len(pr.Errors) > 0 {
		c.Add("parses_with_errors(skipped: the property is about error-free parses)", 1)
		return
	}
	nodes, minus := checkSpans(c, pr.Root, pc.Src, pc.Ver)
	c.Add("nodes_checked", int64(nodes))
	c.Add("nodes_with_a_minus_one_boundary", int64(minus))
	c.Cover("error_free_by_class", pc.Class)
	c.Cover("family", fmt.Sprint(obs.Fam(pc.Ver)))
	obs.Walk(pr.Root, func(n, parent ast.Vertex, role string, _ int) bool {
		c.Cover("kind_in_parent_role", obs.Kind(n)+"<"+obs.Kind(parent)+"."+role)
		c.Cover("kinds_fam"+fmt.Sprint(obs.Fam(pc.Ver)), obs.Kind(n))
		return true
	})
	if nodes >= 3 {
		c.NonTrivial(pc.Src, []byte(pc.Ver))
	}
	if c.WantSample() && nodes > 8 && len(pc.Src) < 240 {
		c.Sample(map[string]interface{}{"input": obsQuote(pc.Src, 240), "version": pc.Ver, "class": pc.Class, "nodes_checked": nodes, "nodes_with_minus_one_boundary": minus})
	}
}

func init() {
	core.Register(&core.Check{
		ID:   "C05",
		Rule: "cases = known-finding witnesses ++ PRNG mix of {corpus snippets, line-terminator rewrites, block-crossing concatenations, generated programs in PRNG trivia layouts, hostile inputs that happen to parse cleanly} x PRNG version; only error-free parses are judged; every node's recorded span is compared with the span computed bottom-up from the tokens of its subtree under the documented conventions; the previous error-free tree of the worker is fingerprinted again after each parse; non-trivial = error-free tree with >= 3 nodes; distinct by (input bytes, version)",
		Assumptions: []string{
			"conventions encoded: Root ignores EndTkn; trait adaptations ignore their semicolon; a node without constituents has a nil/all -1 position; an empty statement list (Stmts, or the catch list of a try) forming a boundary yields -1 which propagates to ancestors bounded by that child",
			"struct field order = source order of a node's constituents (separator lists interleaved with the list they follow)",
		},
		Plan: func(p core.Params) int { return p.Pick(150000, 3000000) },
		Run: func(c *core.Ctx, idx int) {
			c05Case(c, genParseCase(c.P.Seed, "C05", idx, 15))
		},
		RunWitness: func(c *core.Ctx, w core.Witness) {
			c05Case(c, parseCase{w.Src, w.Ver, "witness"})
		},
		MinNonTrivial: 1000,
	})
}
