// Package gen holds the workload generators (G1..G7 of DESIGN.md).
package gen

import (
	"bufio"
	"encoding/json"
	"os"
	"path/filepath"
	"sort"
	"sync"

	"verif/harness/core"
)

type Snippet struct {
	Src    string `json:"src"`
	Origin string `json:"origin"`
}

var (
	corpusOnce sync.Once
	corpus     []Snippet
)

// Corpus returns the committed seed inputs: snippets harvested once from the
// repository's tests plus the hand-written torture set.
func Corpus() []Snippet {
	corpusOnce.Do(func() {
		files, _ := filepath.Glob(filepath.Join(core.VerifDir, "corpus", "*.jsonl"))
		sort.Strings(files)
		for _, fn := range files {
			f, err := os.Open(fn)
			if err != nil {
				continue
			}
			sc := bufio.NewScanner(f)
			sc.Buffer(make([]byte, 1<<22), 1<<22)
			for sc.Scan() {
				var s Snippet
				if json.Unmarshal(sc.Bytes(), &s) == nil && s.Src != "" {
					corpus = append(corpus, s)
				}
			}
			f.Close()
		}
		for _, t := range Torture {
			corpus = append(corpus, Snippet{Src: t, Origin: "torture"})
		}
		if len(corpus) < 100 {
			core.Fail("corpus missing or too small (%d snippets) under %s/corpus", len(corpus), core.VerifDir)
		}
	})
	return corpus
}

// Versions supported by the parser.
var (
	Versions5   = []string{"5.0", "5.1", "5.2", "5.3", "5.4", "5.5", "5.6"}
	Versions7   = []string{"7.0", "7.1", "7.2", "7.3", "7.4"}
	VersionsAll = append(append([]string{}, Versions5...), Versions7...)
	// VersionClasses: within a class the parser must behave identically (C09).
	VersionClasses = [][]string{Versions5, {"7.0", "7.1", "7.2"}, {"7.3", "7.4"}}
)
