#!/usr/bin/env python3
"""usage: mergeseeds.py <snapshot-verif-dir> <run-log> <start-epoch>
Copies the detected_by entries of the seeds a `vp run -- tools/runseeds.py` processed (named in its log) from the
snapshot's seeded/*/meta.json into /verif/seeded/*/meta.json, unless the entry in /verif is newer than the run."""
import json, os, sys, re
snap, log, start = sys.argv[1], sys.argv[2], float(sys.argv[3])
names = sorted({l.split()[0] for l in open(log) if re.match(r"^C\d\d-\S+\s+C\d\d\s+quick", l)})
n = kept = 0
for name in names:
    a, b = os.path.join(snap, "seeded", name, "meta.json"), os.path.join("/verif/seeded", name, "meta.json")
    if not (os.path.exists(a) and os.path.exists(b)):
        continue
    if os.path.getmtime(b) > start:
        kept += 1
        continue
    ma, mb = json.load(open(a)), json.load(open(b))
    mb.setdefault("detected_by", {}).update(ma.get("detected_by", {}))
    json.dump(mb, open(b, "w"), indent=1)
    n += 1
print("merged", n, "kept newer", kept, "of", len(names))
