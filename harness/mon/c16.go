package mon

import (
	"bytes"
	"fmt"
	goast "go/ast"
	goparser "go/parser"
	gotoken "go/token"
	"io"
	"strconv"
	"strings"
	"sync"

	"verif/harness/core"
	"verif/harness/gen"
	"verif/harness/obs"

	"github.com/z7zmey/php-parser/pkg/ast"
	"github.com/z7zmey/php-parser/pkg/position"
	"github.com/z7zmey/php-parser/pkg/token"
	"github.com/z7zmey/php-parser/pkg/visitor/dumper"
)

// C16 — the Go-syntax dump is a complete and faithful rendering of the tree.
//
// The dump is parsed with go/parser (dump reader) and compared field by field
// with a reflection walk of the same tree, for each of the four option sets.

type dumpOpts struct{ tok, pos bool }

var c16Opts = []dumpOpts{{false, false}, {true, false}, {false, true}, {true, true}}

func (o dumpOpts) String() string { return fmt.Sprintf("tokens=%v,positions=%v", o.tok, o.pos) }

// bareWriter has nothing but Write (no WriteString, no Flush): what a pipe, a socket, a hash or a gzip writer offers.
type bareWriter struct{ buf *bytes.Buffer }

func (w bareWriter) Write(b []byte) (int, error) { return w.buf.Write(b) }

func dumpTree(n ast.Vertex, o dumpOpts) (string, *obs.Panic) {
	var buf bytes.Buffer
	// (chosen from the arguments, not from a counter: this function runs on several goroutines in the race twins)
	var wr io.Writer = &buf
	if o.tok != o.pos {
		wr = bareWriter{&buf}
	}
	p := obs.Try(func() {
		d := dumper.NewDumper(wr)
		if o.tok {
			d = d.WithTokens()
		}
		if o.pos {
			d = d.WithPositions()
		}
		n.Accept(d)
	})
	return buf.String(), p
}

// One Dumper may be used for many trees (Dump can be called again): the worker keeps one long-lived dumper
// per option set, writing through a retargetable writer, and half of the parsed-tree cases go through them —
// whatever a dumper remembers from the trees it has seen shows as a difference from the tree in hand.
type c16Writer struct {
	buf       *bytes.Buffer
	failAfter int // > 0: fail once this many bytes are in the buffer
}

func (w *c16Writer) Write(b []byte) (int, error) {
	if w.failAfter > 0 && w.buf.Len()+len(b) > w.failAfter {
		return 0, fmt.Errorf("verif: injected write error")
	}
	return w.buf.Write(b)
}

var (
	c16LongCalls int
	// only C16 injects aborted dumps into the long-lived dumpers (its oracle reads the dump back and ignores
	// indentation; C13 compares bytes, and after a dump that broke off the indentation of that Dumper object is
	// legitimately off — the operation did not complete)
	c16AbortEvery  = 0
	c16AbortedUses = map[dumpOpts]int{}
	c16Aborted     = map[dumpOpts]bool{} // dumpers that have an aborted dump behind them (indentation may be shifted from then on)
)

var c16Long = map[dumpOpts]*struct {
	w *c16Writer
	d *dumper.Dumper
}{}

func dumpTreeLongLived(n ast.Vertex, o dumpOpts) (string, *obs.Panic) {
	e := c16Long[o]
	if e == nil {
		w := &c16Writer{}
		d := dumper.NewDumper(w)
		if o.tok {
			d = d.WithTokens()
		}
		if o.pos {
			d = d.WithPositions()
		}
		e = &struct {
			w *c16Writer
			d *dumper.Dumper
		}{w, d}
		c16Long[o] = e
	}
	c16LongCalls++
	if c16AbortEvery > 0 && c16LongCalls%c16AbortEvery == 0 {
		// a dump of this tree that breaks off after a few bytes (the writer fails, the dumper panics, the caller
		// recovers) — and then the same dumper is used again: it must still be the dumper it was configured to be
		e.w.buf, e.w.failAfter = &bytes.Buffer{}, 11+c16LongCalls%200
		if obs.Try(func() { e.d.Dump(n) }) != nil {
			c16Aborted[o] = true
		}
		e.w.failAfter = 0
	}
	var buf bytes.Buffer
	e.w.buf = &buf
	p := obs.Try(func() { e.d.Dump(n) })
	if p != nil {
		delete(c16Long, o) // a dumper that panicked with a working writer is replaced
		delete(c16Aborted, o)
	}
	return buf.String(), p
}

type c16cmp struct {
	o     dumpOpts
	fails []string // "<kind>.<slot>|<class>" signatures
	what  []string
	lits  int
}

func (c *c16cmp) fail(kind, slot, class, what string) {
	if len(c.fails) < 5 {
		c.fails = append(c.fails, "dump|"+kind+"."+slot+"|"+class)
		c.what = append(c.what, what)
	}
}

func exprString(e goast.Expr) string {
	switch v := e.(type) {
	case *goast.SelectorExpr:
		return exprString(v.X) + "." + v.Sel.Name
	case *goast.Ident:
		return v.Name
	case *goast.StarExpr:
		return "*" + exprString(v.X)
	case *goast.ArrayType:
		return "[]" + exprString(v.Elt)
	case *goast.BasicLit:
		return v.Value
	case *goast.CallExpr:
		s := exprString(v.Fun) + "("
		for i, a := range v.Args {
			if i > 0 {
				s += ","
			}
			s += exprString(a)
		}
		return s + ")"
	case *goast.UnaryExpr:
		return v.Op.String() + exprString(v.X)
	case *goast.CompositeLit:
		return exprString(v.Type) + "{…}"
	}
	return fmt.Sprintf("%T", e)
}

// lit unwraps &T{...} (or {...} inside a typed slice) and checks the type text.
func (c *c16cmp) lit(e goast.Expr, wantType string, elided bool, kind, slot string) *goast.CompositeLit {
	if u, ok := e.(*goast.UnaryExpr); ok && u.Op == gotoken.AND {
		e = u.X
	} else if !elided {
		c.fail(kind, slot, "not-a-pointer-literal", "expected &"+wantType+"{…}, found "+exprString(e))
		return nil
	}
	cl, ok := e.(*goast.CompositeLit)
	if !ok {
		c.fail(kind, slot, "not-a-literal", "expected composite literal "+wantType+", found "+exprString(e))
		return nil
	}
	c.lits++
	if cl.Type == nil {
		if !elided {
			c.fail(kind, slot, "untyped-literal", "literal without a type where "+wantType+" is needed")
			return nil
		}
		return cl
	}
	if got := exprString(cl.Type); got != wantType {
		c.fail(kind, slot, "wrong-type", "literal has type "+got+", the value has type "+wantType)
		return nil
	}
	return cl
}

func (c *c16cmp) kv(cl *goast.CompositeLit, kind string) (map[string]goast.Expr, bool) {
	m := map[string]goast.Expr{}
	for _, el := range cl.Elts {
		kv, ok := el.(*goast.KeyValueExpr)
		if !ok {
			c.fail(kind, "?", "unkeyed-element", "element without key: "+exprString(el))
			return nil, false
		}
		id, ok := kv.Key.(*goast.Ident)
		if !ok {
			c.fail(kind, "?", "bad-key", "key is not an identifier")
			return nil, false
		}
		if _, dup := m[id.Name]; dup {
			c.fail(kind, id.Name, "duplicated", "label "+id.Name+" appears twice")
			return nil, false
		}
		m[id.Name] = kv.Value
	}
	return m, true
}

func (c *c16cmp) bytesLit(e goast.Expr, want []byte, kind, slot string) {
	call, ok := e.(*goast.CallExpr)
	if !ok || exprString(call.Fun) != "[]byte" || len(call.Args) != 1 {
		c.fail(kind, slot, "bad-bytes", "expected []byte(\"…\"), found "+exprString(e))
		return
	}
	bl, ok := call.Args[0].(*goast.BasicLit)
	if !ok || bl.Kind != gotoken.STRING {
		c.fail(kind, slot, "bad-bytes", "expected a string literal")
		return
	}
	s, err := strconv.Unquote(bl.Value)
	if err != nil {
		c.fail(kind, slot, "bad-bytes", "string literal does not unquote: "+err.Error())
		return
	}
	if s != string(want) {
		c.fail(kind, slot, "wrong-content", fmt.Sprintf("dump has %q, tree has %q", s, want))
	}
}

func (c *c16cmp) position(e goast.Expr, p *position.Position, kind string) {
	cl := c.lit(e, "position.Position", false, kind, "Position")
	if cl == nil {
		return
	}
	m, ok := c.kv(cl, kind+".Position")
	if !ok {
		return
	}
	want := map[string]int{"StartLine": p.StartLine, "EndLine": p.EndLine, "StartPos": p.StartPos, "EndPos": p.EndPos}
	for k, v := range want {
		e, ok := m[k]
		if !ok {
			c.fail(kind, "Position."+k, "missing", "position field "+k+" missing")
			continue
		}
		if got := exprString(e); got != strconv.Itoa(v) {
			c.fail(kind, "Position."+k, "wrong-content", fmt.Sprintf("dump has %s, tree has %d", got, v))
		}
		delete(m, k)
	}
	for k := range m {
		c.fail(kind, "Position."+k, "extra", "unknown position field "+k)
	}
}

func (c *c16cmp) tokenLit(e goast.Expr, t *token.Token, elided bool, kind, slot string) {
	cl := c.lit(e, "token.Token", elided, kind, slot)
	if cl == nil {
		return
	}
	m, ok := c.kv(cl, kind+"."+slot)
	if !ok {
		return
	}
	if e, ok := m["ID"]; ok {
		got := strings.TrimPrefix(exprString(e), "token.")
		// the dumped identifier is evaluated against the constant declarations of pkg/token/token.go
		// (not through ID.String(), which is the very table the dumper prints from)
		if v, known := tokenIDValue(got); !known {
			c.fail(kind, slot+".ID", "wrong-content", fmt.Sprintf("dump has ID %s, which is not a constant of package token (the token has id %d)", got, int(t.ID)))
		} else if v != int(t.ID) {
			c.fail(kind, slot+".ID", "wrong-content", fmt.Sprintf("dump has ID %s (= %d), the token has id %d (%s)", got, v, int(t.ID), tokenIDName(int(t.ID))))
		}
		delete(m, "ID")
	} else if t.ID > 0 {
		c.fail(kind, slot+".ID", "missing", "token ID missing")
	}
	if e, ok := m["Val"]; ok {
		c.bytesLit(e, t.Value, kind, slot+".Val")
		delete(m, "Val")
	} else if len(t.Value) > 0 {
		c.fail(kind, slot+".Val", "missing", "token value missing")
	}
	if e, ok := m["Position"]; ok {
		if !c.o.pos {
			c.fail(kind, slot+".Position", "excluded-by-options", "token position dumped without WithPositions")
		} else if t.Position == nil {
			c.fail(kind, slot+".Position", "extra", "position dumped for a token without position")
		} else {
			c.position(e, t.Position, kind+"."+slot)
		}
		delete(m, "Position")
	} else if c.o.pos && t.Position != nil {
		c.fail(kind, slot+".Position", "missing", "token position missing")
	}
	if e, ok := m["FreeFloating"]; ok {
		c.tokenList(e, t.FreeFloating, kind, slot+".FreeFloating")
		delete(m, "FreeFloating")
	} else if len(t.FreeFloating) > 0 {
		c.fail(kind, slot+".FreeFloating", "missing", "free-floating tokens missing")
	}
	for k := range m {
		c.fail(kind, slot+"."+k, "extra", "unknown token field "+k)
	}
}

func (c *c16cmp) tokenList(e goast.Expr, ts []*token.Token, kind, slot string) {
	cl, ok := e.(*goast.CompositeLit)
	if !ok || cl.Type == nil || exprString(cl.Type) != "[]*token.Token" {
		c.fail(kind, slot, "wrong-type", "expected []*token.Token{…}, found "+exprString(e))
		return
	}
	if len(cl.Elts) != len(ts) {
		c.fail(kind, slot, "wrong-length", fmt.Sprintf("dump lists %d tokens, tree has %d", len(cl.Elts), len(ts)))
		return
	}
	for i, el := range cl.Elts {
		if ts[i] == nil {
			c.fail(kind, slot, "extra", "literal for a nil token")
			continue
		}
		c.tokenLit(el, ts[i], true, kind, slot)
	}
}

func (c *c16cmp) node(e goast.Expr, n ast.Vertex, slot string) {
	kind := obs.Kind(n)
	cl := c.lit(e, "ast."+kind, false, kind, slot)
	if cl == nil {
		return
	}
	m, ok := c.kv(cl, kind)
	if !ok {
		return
	}
	for _, f := range obs.Fields(n) {
		label := f.Name
		if f.Kind == obs.FBytes {
			label = "Val"
		}
		e, present := m[label]
		delete(m, label)
		switch f.Kind {
		case obs.FPos:
			switch {
			case present && !c.o.pos:
				c.fail(kind, label, "excluded-by-options", "position dumped without WithPositions")
			case present && f.Pos == nil:
				c.fail(kind, label, "extra", "position dumped for a node without position")
			case present:
				c.position(e, f.Pos, kind)
			case c.o.pos && f.Pos != nil:
				c.fail(kind, label, "missing", "node position missing")
			}
		case obs.FTok:
			switch {
			case present && !c.o.tok:
				c.fail(kind, label, "excluded-by-options", "token dumped without WithTokens")
			case present && f.Tok == nil:
				c.fail(kind, label, "extra", "token dumped for an empty slot")
			case present:
				c.tokenLit(e, f.Tok, false, kind, label)
			case c.o.tok && f.Tok != nil:
				c.fail(kind, label, "missing", "token missing from the dump")
			}
		case obs.FToks:
			switch {
			case present && !c.o.tok:
				c.fail(kind, label, "excluded-by-options", "token list dumped without WithTokens")
			case present:
				c.tokenList(e, f.Toks, kind, label)
			case c.o.tok && len(f.Toks) > 0:
				c.fail(kind, label, "missing", "token list missing from the dump")
			}
		case obs.FNode:
			switch {
			case present && f.Node == nil:
				c.fail(kind, label, "extra", "child dumped for an empty slot")
			case present:
				c.node(e, f.Node, label)
			case f.Node != nil:
				c.fail(kind, label, "missing", "child "+obs.Kind(f.Node)+" missing from the dump")
			}
		case obs.FNodes:
			switch {
			case present:
				l, ok := e.(*goast.CompositeLit)
				if !ok || l.Type == nil || exprString(l.Type) != "[]ast.Vertex" {
					c.fail(kind, label, "wrong-type", "expected []ast.Vertex{…}, found "+exprString(e))
				} else if len(l.Elts) != len(f.Nodes) {
					c.fail(kind, label, "wrong-length", fmt.Sprintf("dump lists %d nodes, tree has %d", len(l.Elts), len(f.Nodes)))
				} else {
					for i, el := range l.Elts {
						c.node(el, f.Nodes[i], label)
					}
				}
			case len(f.Nodes) > 0:
				c.fail(kind, label, "missing", "child list missing from the dump")
			}
		case obs.FBytes:
			switch {
			case present:
				c.bytesLit(e, f.Bytes, kind, label)
			case len(f.Bytes) > 0:
				c.fail(kind, label, "missing", "value missing from the dump")
			}
		}
	}
	for k, e := range m {
		c.fail(kind, k, "mislabelled", "label "+k+" is not a field of ast."+kind+" (value "+exprString(e)+")")
	}
}

// c16Check dumps the tree under every option set, reads the dump back and compares.
func c16Check(c *core.Ctx, n ast.Vertex, w core.Witness) (lits int) {
	return c16CheckWith(c, n, w, false)
}

func c16CheckWith(c *core.Ctx, n ast.Vertex, w core.Witness, longLived bool) (lits int) {
	for _, o := range c16Opts {
		out, p := "", (*obs.Panic)(nil)
		if longLived {
			c16AbortEvery = 37
			out, p = dumpTreeLongLived(n, o)
			w = w.With("dumper", "one Dumper used for many trees")
			c.Add("dumps_by_a_long_lived_dumper", 1)
		} else {
			out, p = dumpTree(n, o)
		}
		if p != nil {
			c.Violation(p.Sig, "dumper panicked ("+o.String()+"): "+p.Msg, w.With("options", o.String()))
			continue
		}
		if longLived {
			// the rendering of a tree does not depend on what the dumper rendered before: byte for byte the text of a new dumper
			if fresh, fp := dumpTree(n, o); fp == nil && fresh != out && !c16Aborted[o] {
				c.Violation("dump|long-lived-dumper-differs-from-new-dumper", "a Dumper that has dumped other trees before renders this tree differently from a new Dumper ("+o.String()+"): "+obs.FirstDiff(fresh, out), w.With("options", o.String()))
				delete(c16Long, o)
				continue
			}
			if c16Aborted[o] {
				c.Add("dumps_by_a_dumper_with_an_aborted_dump_behind_it", 1)
				if c16AbortedUses[o]++; c16AbortedUses[o] >= 8 {
					// a new dumper takes over, so that byte equality with a new dumper is observed again
					delete(c16Long, o)
					delete(c16Aborted, o)
					delete(c16AbortedUses, o)
				}
			} else {
				c.Add("long_lived_dumps_equal_to_new_dumper", 1)
			}
		}
		src := "package p\n\nvar _ = []interface{}{\n" + out + "}\n"
		fset := gotoken.NewFileSet()
		f, err := goparser.ParseFile(fset, "dump.go", src, 0)
		if err != nil {
			c.Violation("dump|not-go-syntax|"+numStrip(firstLine(err.Error())), "go/parser rejects the dump ("+o.String()+"): "+firstLine(err.Error()), w.With("options", o.String()))
			continue
		}
		vs := f.Decls[0].(*goast.GenDecl).Specs[0].(*goast.ValueSpec)
		top := vs.Values[0].(*goast.CompositeLit)
		if len(top.Elts) != 1 {
			c.Violation("dump|top-level-count", fmt.Sprintf("dump contains %d top-level values", len(top.Elts)), w.With("options", o.String()))
			continue
		}
		cmp := &c16cmp{o: o}
		cmp.node(top.Elts[0], n, "root")
		lits += cmp.lits
		for i, sig := range cmp.fails {
			c.Violation(sig, cmp.what[i]+" ("+o.String()+")", w.With("options", o.String()))
		}
		c.Add("dumps_read_back", 1)
		c.Add("literals_compared", int64(cmp.lits))
	}
	return lits
}

func firstLine(s string) string { return strings.SplitN(s, "\n", 2)[0] }

func numStrip(s string) string {
	var b strings.Builder
	for _, r := range s {
		if r < '0' || r > '9' {
			b.WriteRune(r)
		}
	}
	return b.String()
}

func init() {
	core.Register(&core.Check{
		ID:   "C16",
		Rule: "cases = G5 synthetic nodes: every node kind of ast.Visitor x slot subsets (all 2^k for k<=12, else all single/double toggles + PRNG subsets), marker values incl. bytes that need quoting, unique positions, every third case with one node object standing twice in a list, every third with free-floating tokens that carry free-floating tokens of their own, x 4 option sets  ++  parsed trees of corpus/hostile inputs x 4 option sets, half of them dumped by long-lived dumpers that have dumped other trees before; non-trivial = at least one composite literal read back and compared; distinct by (kind, subset) / input bytes",
		Assumptions: []string{
			"go/parser accepting the text is the meaning of 'syntactically valid Go composite literal'",
			"labels: Go field name, except []byte values which the property says are labelled Val; empty lists may be shown or omitted",
		},
		Plan:       func(p core.Params) int { return len(synthCases(p)) + p.Pick(3000, 150000) },
		Exhaustive: func(p core.Params) bool { return false },
		Run: func(c *core.Ctx, idx int) {
			cases := synthCases(c.P)
			if idx < len(cases) {
				sc := cases[idx]
				zero := zeroOf(sc.Kind)
				s := &gen.Synth{R: core.NewRand(c.P.Seed, "C16", idx), WithPos: true, Nasty: true, Share: idx%3 == 0, NestFF: idx%3 == 1}
				n := s.Build(zero, sc.Present)
				w := core.Witness{Cfg: map[string]string{"kind": sc.Kind, "present": presentString(zero, sc.Present)}}
				if s.Shared > 0 {
					w = w.With("shared", "one node object stands twice in a list")
					c.Add("synthetic_nodes_with_a_repeated_list_element", 1)
				}
				if c16Check(c, n, w) > 0 {
					c.NonTrivial([]byte(sc.Kind), []byte(w.Cfg["present"]))
				}
				c.Cover("synthetic_kinds", sc.Kind)
				if c.WantSample() && len(w.Cfg["present"]) > 20 {
					out, _ := dumpTree(n, dumpOpts{true, false})
					c.Sample(map[string]interface{}{"kind": sc.Kind, "present": w.Cfg["present"], "dump_with_tokens": trunc(out, 600)})
				}
				return
			}
			pc := genParseCase(c.P.Seed, "C16in", idx, 30)
			c16Input(c, pc.Src, pc.Ver)
		},
		RunWitness: func(c *core.Ctx, w core.Witness) { c16Input(c, w.Src, w.Ver) },
	})
}

func c16Input(c *core.Ctx, src []byte, ver string) {
	c.Inflight(src, "C16 parse "+ver)
	pr := obs.Parse(src, ver, true)
	if pr.Panic != nil || pr.Root == nil {
		return // C01's business
	}
	if c16CheckWith(c, pr.Root, core.W(src, ver), len(src)%2 == 0) > 4 {
		c.NonTrivial(src, []byte(ver))
	}
	obs.Walk(pr.Root, func(n, _ ast.Vertex, _ string, _ int) bool { c.Cover("parsed_kinds", obs.Kind(n)); return true })
}

func trunc(s string, n int) string {
	if len(s) > n {
		return s[:n] + "…"
	}
	return s
}

var (
	tokenConstOnce sync.Once
	tokenConsts    map[string]int
	tokenNames     map[int]string
)

// loadTokenConsts evaluates the const block of pkg/token/token.go (iota arithmetic of the form
// "X ID = iota + N" followed by bare names) with go/parser.
func loadTokenConsts() {
	tokenConstOnce.Do(func() {
		tokenConsts, tokenNames = map[string]int{}, map[int]string{}
		fset := gotoken.NewFileSet()
		f, err := goparser.ParseFile(fset, core.RepoDir()+"/pkg/token/token.go", nil, 0)
		if err != nil {
			core.Fail("C16: cannot read pkg/token/token.go: %v", err)
		}
		for _, d := range f.Decls {
			gd, ok := d.(*goast.GenDecl)
			if !ok || gd.Tok != gotoken.CONST {
				continue
			}
			base := 0
			for i, sp := range gd.Specs {
				vs := sp.(*goast.ValueSpec)
				if len(vs.Values) == 1 {
					// iota + N
					if be, ok := vs.Values[0].(*goast.BinaryExpr); ok {
						if lit, ok := be.Y.(*goast.BasicLit); ok {
							n, _ := strconv.Atoi(lit.Value)
							base = n - i
						}
					}
				}
				for _, nm := range vs.Names {
					tokenConsts[nm.Name] = base + i
					tokenNames[base+i] = nm.Name
				}
			}
		}
		if len(tokenConsts) < 100 {
			core.Fail("C16: only %d token constants found in pkg/token/token.go", len(tokenConsts))
		}
	})
}

func tokenIDValue(s string) (int, bool) {
	loadTokenConsts()
	if strings.HasPrefix(s, "ID(") && strings.HasSuffix(s, ")") {
		n, err := strconv.Atoi(s[3 : len(s)-1])
		return n, err == nil
	}
	v, ok := tokenConsts[s]
	return v, ok
}

func tokenIDName(v int) string {
	loadTokenConsts()
	if n, ok := tokenNames[v]; ok {
		return n
	}
	return fmt.Sprintf("ID(%d)", v)
}
