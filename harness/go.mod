module verif/harness

go 1.21

require github.com/z7zmey/php-parser v0.0.0

replace github.com/z7zmey/php-parser => /repo
