package gen

// Context x byte enumeration (part of G3): every lexical context of the scanner,
// followed by a short lexically loaded lead-in, followed by every byte value, either
// at end of input or followed by a closing tail. The space is finite and enumerated
// completely: len(ctxOpen) * len(ctxLead) * 256 * len(ctxTail) inputs.

var ctxOpen = []string{
	"", "x", "<?php ", "<?= ", "<?php $a->", "<?php $a::", "<?php \"", "<?php \"a", "<?php `", "<?php '", "<?php b\"",
	"<?php <<<A\n", "<?php <<<A\nx", "<?php <<<\"A\"\n", "<?php <<<'A'\n", "<?php <<<A\n  ", "<?php <<<A\nA",
	"<?php /* ", "<?php /** ", "<?php // ", "<?php # ", "<?php \"$a[", "<?php \"${", "<?php \"${a[", "<?php \"{$a", "<?php \"$a->",
	"<?php __halt_compiler", "<?php __halt_compiler(", "<?php __halt_compiler()", "<?php __halt_compiler();", "<?php yield ", "<?php (", "<?php ( int", "<?php 0", "<?php 0x", "<?php 1.", "<?php 1e", "<?php $", "<?php ?>", "<?php ;", "<?php a\\", "#!",
}

var ctxLead = []string{"", "$", "{", "\\", "-", "->", "?", "<", "*", "/", "\r", "${", "{$", "$a", "<<", "\n", "\nA", "_", "0", "."}

var ctxTail = []string{"", " a\nA;\n\";`'*/ ?>", "\n"}

// CtxBytesCount is the size of the enumeration.
func CtxBytesCount() int { return len(ctxOpen) * len(ctxLead) * 256 * len(ctxTail) }

// CtxBytes returns input number i of the enumeration.
func CtxBytes(i int) []byte {
	t := i % len(ctxTail)
	i /= len(ctxTail)
	b := i % 256
	i /= 256
	l := i % len(ctxLead)
	i /= len(ctxLead)
	o := i % len(ctxOpen)
	out := []byte(ctxOpen[o] + ctxLead[l])
	out = append(out, byte(b))
	return append(out, ctxTail[t]...)
}
