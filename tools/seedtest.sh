#!/bin/bash
# usage: tools/seedtest.sh <patch.diff> <ID> [<ID>...]   — applies a seeded change to /repo, runs the quick checks, reverts.
P=$1; shift
cd /repo || exit 2
if [ -n "$(git status --porcelain)" ]; then echo "/repo not clean"; exit 2; fi
git apply "$P" || { echo "patch does not apply"; exit 2; }
trap 'git -C /repo checkout -- . ; git -C /repo clean -fdq' EXIT
for id in "$@"; do
  echo "=== $id with $(basename $(dirname $P))/$(basename $P)"
  (cd /verif && timeout 1800 ./check $id --tier ${TIER:-quick} 2>&1 | grep -v '^---\|^    ' | tail -${LINES_OUT:-6}); 
done
