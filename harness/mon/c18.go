package mon

import (
	"fmt"
	"strconv"
	"sync"

	"verif/harness/core"
	"verif/harness/gen"
	"verif/harness/obs"

	"github.com/z7zmey/php-parser/pkg/ast"
	"github.com/z7zmey/php-parser/pkg/position"
	"github.com/z7zmey/php-parser/pkg/token"
)

// C18 — pool allocations are distinct and stay valid.
//
// One case = (pool kind, block size, mode). The monitor requests 4*size+3 objects
// (so every request count 0..4*size+3 is a prefix of the history and is checked
// when it is reached), writes a unique value through every pointer, and after
// every request checks: non-nil, pointer not seen before, and (at block
// boundaries, every 64 requests and at the end) that every earlier object still
// holds exactly the value written through its own pointer. Mode "pair"
// interleaves two pools of the same kind under PRNG control.

func c18Sizes(p core.Params) []int {
	var s []int
	hi := 64
	if p.Thorough() {
		hi = 300
	}
	for i := 1; i <= hi; i++ {
		s = append(s, i)
	}
	s = append(s, 127, 128, 129, 255, 256, 257, 1023, 1024, 1025)
	if p.Thorough() {
		s = append(s, 511, 512, 513, 2047, 2048, 2049, 4095, 4096, 4097)
	}
	return s
}

var c18Modes = []string{"token", "position", "token-pair", "position-pair", "token-mixed", "position-mixed"}

// long histories: (block size, requests) — many block boundaries, content checked
// at every doubling of the request count and at the end
func c18Long(p core.Params) [][2]int {
	n := p.Pick(200000, 1500000)
	out := [][2]int{}
	for _, s := range []int{1, 2, 3, 7, 64, 1000, 1024, 1025} {
		out = append(out, [2]int{s, n})
	}
	for _, s := range []int{8192, 16384, 20000, 65536, 100000} {
		out = append(out, [2]int{s, 4*s + 3})
	}
	return out
}

type c18obj struct {
	tok *token.Token
	pos *position.Position
	id  int
}

func c18write(o c18obj) {
	if o.tok != nil {
		o.tok.ID = token.ID(o.id)
		o.tok.Value = []byte(fmt.Sprintf("v%d", o.id))
		o.tok.Position = &position.Position{StartLine: o.id}
		o.tok.FreeFloating = make([]*token.Token, o.id%3)
	} else {
		*o.pos = position.Position{StartLine: o.id, EndLine: -o.id, StartPos: o.id * 3, EndPos: o.id*3 + 1}
	}
}

func c18holds(o c18obj) bool {
	if o.tok != nil {
		return int(o.tok.ID) == o.id && string(o.tok.Value) == fmt.Sprintf("v%d", o.id) && o.tok.Position != nil &&
			o.tok.Position.StartLine == o.id && len(o.tok.FreeFloating) == o.id%3
	}
	return *o.pos == position.Position{StartLine: o.id, EndLine: -o.id, StartPos: o.id * 3, EndPos: o.id*3 + 1}
}

// c18Trees: number of "several trees alive" cases — the pools as the library itself uses them:
// 2..5 Parse calls (one after the other, or on goroutines) whose trees are all kept; every token
// and position object of every tree must be distinct from those of the other trees, and every
// tree must still read the same after all parses have finished.
func c18Trees(p core.Params) int { return p.Pick(400, 20000) }

func c18Pointers(root ast.Vertex) (toks map[*token.Token]bool, poss map[*position.Position]bool) {
	toks, poss, _ = c18PointersDup(root)
	return
}

// c18PointersDup also names the first position object that two holders (tokens or nodes) of ONE tree share.
func c18PointersDup(root ast.Vertex) (toks map[*token.Token]bool, poss map[*position.Position]bool, shared string) {
	toks, poss = map[*token.Token]bool{}, map[*position.Position]bool{}
	holder := map[*position.Position]string{}
	note := func(p *position.Position, who string) {
		if prev, dup := holder[p]; dup && shared == "" {
			shared = prev + " and " + who
		}
		holder[p] = who
		poss[p] = true
	}
	for _, tr := range obs.Tokens(root) {
		if toks[tr.Tok] {
			continue
		}
		toks[tr.Tok] = true
		if tr.Tok.Position != nil {
			note(tr.Tok.Position, "token "+strconv.Quote(string(tr.Tok.Value)))
		}
	}
	obs.Walk(root, func(n, parent ast.Vertex, role string, depth int) bool {
		if obs.IsNil(n) {
			return true
		}
		if p := n.GetPosition(); p != nil {
			note(p, "node "+obs.Kind(n)+"<"+obs.Kind(parent)+"."+role)
		}
		return true
	})
	return
}

// c18Constructors: the allocation entry point outside the pools, position.NewPosition (the lexer's error positions
// come from it), called from g goroutines at once and from inside running Parse calls: every object distinct
// and still holding its own values afterwards.
func c18Constructors(c *core.Ctx, idx int) {
	rnd := core.NewRand(c.P.Seed, "C18ctor", idx)
	g, per := rnd.Range(2, 16), rnd.Range(200, 5000)
	out := make([][]*position.Position, g)
	var wg sync.WaitGroup
	for k := 0; k < g; k++ {
		wg.Add(1)
		go func(k int) {
			defer wg.Done()
			l := make([]*position.Position, per)
			for i := range l {
				l[i] = position.NewPosition(k, i, k*per+i, -i)
				if i%512 == 0 {
					// lexer errors allocate positions the same way: a parse with unexpected characters in between
					obs.Parse([]byte("<?php \x01 $a \x02;"), "7.4", true)
				}
			}
			out[k] = l
		}(k)
	}
	wg.Wait()
	seen := map[*position.Position]bool{}
	w := core.Witness{Cfg: map[string]string{"mode": "newposition-concurrent", "goroutines": fmt.Sprint(g), "calls_each": fmt.Sprint(per)}}
	for k, l := range out {
		for i, p := range l {
			if p == nil {
				c.Violation("pool|newposition|nil", "position.NewPosition returned nil", w)
				return
			}
			if seen[p] {
				c.Violation("pool|newposition|duplicate", fmt.Sprintf("position.NewPosition returned one object twice (goroutine %d, call %d)", k, i), w)
				return
			}
			seen[p] = true
			if p.StartLine != k || p.EndLine != i || p.StartPos != k*per+i || p.EndPos != -i {
				c.Violation("pool|newposition|overwritten", fmt.Sprintf("the position created by goroutine %d, call %d holds %+v afterwards", k, i, *p), w)
				return
			}
		}
	}
	c.Add("constructor_objects_compared", int64(len(seen)))
	c.Cover("mode", "newposition-concurrent")
	c.NonTrivial([]byte("ctor"), []byte(fmt.Sprint(idx)))
}

func c18TreesAlive(c *core.Ctx, idx int) {
	if idx%10 == 9 {
		c18Constructors(c, idx)
		return
	}
	rnd := core.NewRand(c.P.Seed, "C18trees", idx)
	k := 2 + rnd.Intn(4)
	conc := rnd.Chance(1, 2)
	type one struct {
		pc   parseCase
		root ast.Vertex
		fp   string
	}
	trees := make([]one, k)
	for i := range trees {
		// mostly large error-free sources (several pool blocks), some ordinary workload inputs
		if rnd.Chance(2, 3) {
			trees[i].pc = parseCase{gen.Big(rnd.Split(fmt.Sprint("big", i)), []int{5000, 9000, 20000}[rnd.Intn(3)], bodyParses), pickVersion(rnd), "big"}
		} else {
			trees[i].pc = genParseCase(c.P.Seed, "C18trees", idx*8+i, 20)
		}
	}
	w := core.W(trees[0].pc.Src, trees[0].pc.Ver).With("mode", "trees-alive").With("trees", fmt.Sprint(k)).With("concurrent", fmt.Sprint(conc))
	c.Inflight(trees[0].pc.Src, "C18 trees-alive")
	parse := func(i int) {
		pr := obs.Parse(trees[i].pc.Src, trees[i].pc.Ver, true)
		if pr.Panic == nil && pr.Root != nil {
			trees[i].root = pr.Root
			trees[i].fp = obs.Fingerprint(pr.Root, false)
		}
	}
	if conc {
		var wg sync.WaitGroup
		for i := range trees {
			wg.Add(1)
			go func(i int) { defer wg.Done(); parse(i) }(i)
		}
		wg.Wait()
	} else {
		for i := range trees {
			parse(i)
		}
	}
	ownerT := map[*token.Token]int{}
	ownerP := map[*position.Position]int{}
	nobj := 0
	for i := range trees {
		if trees[i].root == nil {
			continue
		}
		if now := obs.Fingerprint(trees[i].root, false); now != trees[i].fp {
			c.Violation("pool|trees-alive|tree-changed-by-other-parse", fmt.Sprintf("tree %d of %d changed while the other parses ran: %s", i, k, obs.FirstDiff(trees[i].fp, now)), w)
			return
		}
		ts, ps, sharedIn := c18PointersDup(trees[i].root)
		if sharedIn != "" {
			c.Violation("pool|trees-alive|position-shared-within-tree", fmt.Sprintf("one position object is held twice in tree %d: by %s", i, sharedIn), core.W(trees[i].pc.Src, trees[i].pc.Ver).With("mode", "trees-alive"))
			return
		}
		for t := range ts {
			if j, dup := ownerT[t]; dup {
				c.Violation("pool|trees-alive|token-shared-between-trees", fmt.Sprintf("one token object belongs to tree %d and tree %d (value %q)", j, i, t.Value), w)
				return
			}
			ownerT[t] = i
		}
		for p := range ps {
			if j, dup := ownerP[p]; dup {
				c.Violation("pool|trees-alive|position-shared-between-trees", fmt.Sprintf("one position object belongs to tree %d and tree %d (%+v)", j, i, *p), w)
				return
			}
			ownerP[p] = i
		}
		nobj += len(ts) + len(ps)
	}
	c.Add("trees_alive_cases", 1)
	c.Add("trees_alive_objects_compared", int64(nobj))
	c.Cover("mode", "trees-alive")
	c.Cover("trees_alive", fmt.Sprintf("k=%d concurrent=%v", k, conc))
	c.Max("max_objects_alive_across_trees", int64(nobj))
	if nobj > 2048 {
		c.NonTrivial([]byte("trees-alive"), []byte(fmt.Sprint(idx)))
	}
}

func init() {
	core.Register(&core.Check{
		ID:   "C18",
		Rule: "cases = {token,position} pool x {single, two interleaved pools of one size, 2..5 interleaved pools of different sizes} x block size (1..64 and boundary sizes; thorough 1..300 and up to 4097); each case is a history of 4*size+3 Get calls with all prefixes checked (objects written at once, or only after 1, 2, size or all further requests), plus long histories (200k / 1.5M requests for sizes 1,2,3,7,64,1000,1024,1025 and 4*size+3 requests for sizes 8192..100000) checked at every doubling and at the end; plus trees-alive cases: 2..5 Parse calls (sequential or on goroutines) whose trees are all kept — token and position objects pairwise distinct across the trees and no position object held by two tokens/nodes of one tree, every tree unchanged after the last parse; every tenth of these cases calls position.NewPosition from 2..16 goroutines (with lexer-error parses in between): all objects distinct and holding their own values; non-trivial = history crossed at least one block boundary; distinct by (mode, size, requests)",
		Assumptions: []string{
			"the public Pool API (NewPool, Get) is the only way the library obtains tokens and positions",
			"block size 0 (Get returns nil) is outside the property's quantifier (positive sizes)",
		},
		Plan:       func(p core.Params) int { return (len(c18Sizes(p))+len(c18Long(p)))*len(c18Modes) + c18Trees(p) },
		Exhaustive: func(p core.Params) bool { return true },
		Run: func(c *core.Ctx, idx int) {
			sizes := c18Sizes(c.P)
			if idx >= (len(sizes)+len(c18Long(c.P)))*len(c18Modes) {
				c18TreesAlive(c, idx)
				return
			}
			mode := c18Modes[idx%len(c18Modes)]
			var size, requests int
			long := false
			if k := idx / len(c18Modes); k < len(sizes) {
				size = sizes[k]
				requests = 4*size + 3
			} else {
				l := c18Long(c.P)[k-len(sizes)]
				size, requests, long = l[0], l[1], true
			}
			w := core.Witness{Cfg: map[string]string{"mode": mode, "block_size": fmt.Sprint(size), "requests": fmt.Sprint(requests)}}
			rnd := core.NewRand(c.P.Seed, "C18", idx)
			isTok := mode == "token" || mode == "token-pair" || mode == "token-mixed"
			npools := 1
			psize := []int{size}
			switch mode {
			case "token-pair", "position-pair":
				npools = 2
				psize = []int{size, size}
			case "token-mixed", "position-mixed":
				// 2..5 pools of different block sizes alive at once (smaller, larger, neighbouring and PRNG sizes)
				npools = 2 + rnd.Intn(4)
				cand := []int{size/2 + 1, size * 2, size + 1, 1 + rnd.Intn(size), size*3 + 1, 1}
				for i := 1; i < npools; i++ {
					psize = append(psize, cand[rnd.Intn(len(cand))])
				}
				if long {
					npools, psize = 3, []int{size, size/2 + 1, size * 2}
				}
				w.Cfg["pool_sizes"] = fmt.Sprint(psize)
			}
			var tp []*token.Pool
			var pp []*position.Pool
			for i := 0; i < npools; i++ {
				if isTok {
					tp = append(tp, token.NewPool(psize[i]))
				} else {
					pp = append(pp, position.NewPool(psize[i]))
				}
			}
			total := requests * npools
			seen := map[interface{}]int{}
			var objs []c18obj
			// delay: 0 = immediate; otherwise the number of objects that stay unwritten behind the newest request
			delay := []int{0, 0, 1, 2, size, 1 << 30}[rnd.Intn(6)]
			if long && delay > 2 {
				delay = 2
			}
			w.Cfg["fill_delay"] = fmt.Sprint(delay)
			var pending []c18obj
			verifyAll := func(at int) bool {
				for _, p := range pending {
					c18write(p)
				}
				pending = pending[:0]
				for _, o := range objs {
					if !c18holds(o) {
						c.Violation("pool|"+mode+"|clobbered", fmt.Sprintf("after %d requests (block size %d) object #%d no longer holds the value written through its own pointer", at, size, o.id), w)
						return false
					}
				}
				return true
			}
			per := make([]int, npools)
			var p *obs.Panic
			ok := true
			p = obs.Try(func() {
				for i := 0; i < total && ok; i++ {
					k := 0
					if npools > 1 {
						k = rnd.Intn(npools)
					}
					per[k]++
					o := c18obj{id: i + 1}
					var key interface{}
					if isTok {
						o.tok = tp[k].Get()
						key = o.tok
						if o.tok == nil {
							c.Violation("pool|"+mode+"|nil", fmt.Sprintf("Get returned nil at request %d (block size %d)", i+1, size), w)
							ok = false
							return
						}
					} else {
						o.pos = pp[k].Get()
						key = o.pos
						if o.pos == nil {
							c.Violation("pool|"+mode+"|nil", fmt.Sprintf("Get returned nil at request %d (block size %d)", i+1, size), w)
							ok = false
							return
						}
					}
					if prev, dup := seen[key]; dup {
						c.Violation("pool|"+mode+"|duplicate", fmt.Sprintf("request %d returned the same object as request %d (block size %d)", i+1, prev, size), w)
						ok = false
						return
					}
					seen[key] = i + 1
					// fill policy: write at once, or only after `delay` further requests (a caller may reserve objects
					// first and fill them later; until then they hold the zero value)
					objs = append(objs, o)
					if delay == 0 {
						c18write(o)
					} else {
						pending = append(pending, o)
						for len(pending) > delay {
							c18write(pending[0])
							pending = pending[1:]
						}
					}
					c.Add("gets", 1)
					if (!long && (per[k]%psize[k] == 0 || per[k]%psize[k] == 1 || i%64 == 0)) || (long && i&(i-1) == 0) {
						c.Add("full_content_checks", 1)
						if !verifyAll(i + 1) {
							ok = false
							return
						}
					}
				}
				if ok {
					verifyAll(total)
				}
			})
			if p != nil {
				c.Violation(p.Sig, "pool panicked: "+p.Msg, w)
			}
			c.Cover("mode", mode)
			c.Max("max_block_size", int64(size))
			c.Max("max_requests_in_one_history", int64(total))
			if total > size {
				c.NonTrivial([]byte(mode), []byte(fmt.Sprint(size, requests)))
				c.Add("block_boundaries_crossed", int64(total/size))
			}
			if c.WantSample() {
				c.Sample(map[string]interface{}{"mode": mode, "block_size": size, "requests": total, "distinct_pointers": len(seen)})
			}
		},
	})
}
