package mon

import (
	"fmt"

	"verif/harness/core"
	"verif/harness/obs"

	"github.com/z7zmey/php-parser/pkg/ast"
	"github.com/z7zmey/php-parser/pkg/position"
)

// Node span monitor (C05), applied to error-free parses.
//
// Expected span of a node = [start of its first constituent, end of its last
// constituent], constituents being its own tokens, child nodes and lists in source
// order (free-floating tokens excluded), computed bottom-up from the *tokens* (not
// from the children's recorded positions, so one wrong child does not hide in its
// parent). Conventions of the property text, and only these:
//   - Root ignores EndTkn (trailing trivia);
//   - StmtTraitUseAlias / StmtTraitUsePrecedence ignore their SemiColonTkn;
//   - a node with no constituent at all (empty array/list slot) has a nil position
//     (all -1 is accepted too);
//   - an empty statement list that forms the boundary of a node yields -1 for that
//     boundary, and -1 propagates to ancestors whose boundary is that child.
// Also checked: children inside parents, siblings ordered and disjoint, lines = lines
// of the offsets.

type span struct{ s, e int }

// stmtListBoundary: empty lists that the grammar uses as a position boundary.
func stmtListBoundary(kind, field string) bool {
	if field == "Stmts" {
		return true
	}
	return kind == "StmtTry" && field == "Catches"
}

func spanIgnoresToken(kind, field string) bool {
	switch kind {
	case "Root":
		return field == "EndTkn"
	case "StmtTraitUseAlias", "StmtTraitUsePrecedence":
		return field == "SemiColonTkn"
	}
	return false
}

type spanChecker struct {
	c     *core.Ctx
	src   []byte
	w     core.Witness
	fam   string
	lines *obs.Lines
	bad   bool
	nodes int
	minus int // nodes with a -1 boundary
}

// expected computes the expected span of n and checks n and its descendants.
// present=false means n has no constituent at all.
func (sc *spanChecker) expected(n ast.Vertex, parentKind, role string, spine bool) (sp span, present bool) {
	kind := obs.Kind(n)
	fs := obs.Fields(n)
	type cons struct {
		s, e int
		kid  ast.Vertex
	}
	var cs []cons
	var recorded *position.Position
	for i := 0; i < len(fs); i++ {
		f := fs[i]
		switch f.Kind {
		case obs.FPos:
			recorded = f.Pos
		case obs.FTok:
			if f.Tok != nil && f.Tok.Position != nil && !spanIgnoresToken(kind, f.Name) {
				cs = append(cs, cons{f.Tok.Position.StartPos, f.Tok.Position.EndPos, nil})
			}
		case obs.FToks:
			for _, t := range f.Toks {
				if t != nil && t.Position != nil {
					cs = append(cs, cons{t.Position.StartPos, t.Position.EndPos, nil})
				}
			}
		case obs.FNode:
			if f.Node != nil {
				// the class-reference chain below a PHP 5 'new' (known, test-pinned span defect) is tagged in signatures
				sub := (spine && (f.Name == "Var" || f.Name == "Class" || f.Name == "Prop" || f.Name == "Name")) || (kind == "ExprNew" && f.Name == "Class" && sc.fam == "fam5")
				s, ok := sc.expected(f.Node, kind, f.Name, sub)
				if ok {
					cs = append(cs, cons{s.s, s.e, f.Node})
				}
			}
		case obs.FNodes:
			var seps []cons
			if i+1 < len(fs) && fs[i+1].Kind == obs.FToks {
				for _, t := range fs[i+1].Toks {
					if t != nil && t.Position != nil {
						seps = append(seps, cons{t.Position.StartPos, t.Position.EndPos, nil})
					}
				}
				i++
			}
			var items []cons
			for _, k := range f.Nodes {
				if obs.IsNil(k) {
					continue
				}
				s, ok := sc.expected(k, kind, f.Name, false)
				if ok {
					items = append(items, cons{s.s, s.e, k})
				}
			}
			if len(items) == 0 && len(seps) == 0 {
				if len(f.Nodes) == 0 && stmtListBoundary(kind, f.Name) {
					cs = append(cs, cons{-1, -1, nil})
				}
				continue
			}
			// interleave by field order: items and separators alternate; as a group only the
			// first and last element matter for the boundary
			g := cons{-2, -2, nil}
			all := append(append([]cons{}, items...), seps...)
			// first element in source order = the one with the smallest start among items[0], seps[0]
			first := all[0]
			if len(items) > 0 && len(seps) > 0 && seps[0].s >= 0 && items[0].s >= 0 && seps[0].s < items[0].s {
				first = seps[0]
			} else if len(items) > 0 {
				first = items[0]
			}
			last := all[len(all)-1]
			if len(items) > 0 {
				last = items[len(items)-1]
				if len(seps) > 0 && last.e >= 0 && seps[len(seps)-1].e > last.e {
					last = seps[len(seps)-1]
				}
			}
			g.s, g.e = first.s, last.e
			cs = append(cs, g)
			// keep the items for nesting/sibling checks
			for _, it := range items {
				cs = append(cs, cons{-3, -3, it.kid})
			}
		}
	}
	// boundaries: first and last real constituents (kid-only entries with -3 are bookkeeping)
	var real []cons
	var kids []ast.Vertex
	for _, x := range cs {
		if x.s == -3 {
			kids = append(kids, x.kid)
			continue
		}
		real = append(real, x)
		if x.kid != nil {
			kids = append(kids, x.kid)
		}
	}
	sc.nodes++
	// the signature names the kind with its present slots, its parent kind and role
	slots := ""
	for _, f := range fs {
		if (f.Kind == obs.FTok && f.Tok != nil) || (f.Kind == obs.FNode && f.Node != nil) || (f.Kind == obs.FNodes && len(f.Nodes) > 0) || (f.Kind == obs.FToks && len(f.Toks) > 0) {
			if slots != "" {
				slots += ","
			}
			slots += f.Name
		}
	}
	where := kind + "[" + slots + "]<" + parentKind + "." + role
	if spine {
		where = "new-class-ref-chain:" + where
	}
	if len(real) == 0 {
		// no constituent at all
		if recorded != nil && !(recorded.StartPos == -1 && recorded.EndPos == -1) {
			sc.fail("span|"+sc.fam+"|"+where+"|no-constituents", fmt.Sprintf("%s has no token, child or list but records position %d..%d", kind, recorded.StartPos, recorded.EndPos))
		}
		return span{}, false
	}
	want := span{real[0].s, real[len(real)-1].e}
	if want.s == -1 || want.e == -1 {
		sc.minus++
	}
	if recorded == nil {
		sc.fail("span|"+sc.fam+"|"+where+"|nil-position", fmt.Sprintf("%s spans source %d..%d but has no position", kind, want.s, want.e))
		return want, true
	}
	if recorded.StartPos != want.s {
		sc.fail("span|"+sc.fam+"|"+where+"|start", fmt.Sprintf("%s records StartPos %d, its first own token/child starts at %d (%s)", kind, recorded.StartPos, want.s, sc.ctx(recorded.StartPos, want.s)))
	} else if recorded.EndPos != want.e {
		sc.fail("span|"+sc.fam+"|"+where+"|end", fmt.Sprintf("%s records EndPos %d, its last own token/child ends at %d (%s)", kind, recorded.EndPos, want.e, sc.ctx(recorded.EndPos, want.e)))
	} else {
		// lines
		wl := -1
		if want.s >= 0 {
			wl = sc.lines.Line(want.s)
		}
		if recorded.StartLine != wl {
			sc.fail("span|"+sc.fam+"|"+where+"|startline", fmt.Sprintf("%s at offset %d records StartLine %d, reference %d", kind, want.s, recorded.StartLine, wl))
		}
		el := -1
		if want.e > 0 {
			el = sc.lines.Line(want.e - 1)
		} else if want.e == 0 {
			el = 1
		}
		if recorded.EndLine != el {
			sc.fail("span|"+sc.fam+"|"+where+"|endline", fmt.Sprintf("%s ending at offset %d records EndLine %d, reference %d", kind, want.e, recorded.EndLine, el))
		}
	}
	// nesting and sibling order on recorded positions
	prevEnd := -1
	prevKind := ""
	for _, k := range kids {
		kp := k.GetPosition()
		if kp == nil || kp.StartPos < 0 || kp.EndPos < 0 {
			continue
		}
		if recorded.StartPos >= 0 && kp.StartPos < recorded.StartPos || recorded.EndPos >= 0 && kp.EndPos > recorded.EndPos {
			sc.fail("span|"+sc.fam+"|"+where+"|child-outside|"+obs.Kind(k), fmt.Sprintf("child %s (%d..%d) is not inside its parent %s (%d..%d)", obs.Kind(k), kp.StartPos, kp.EndPos, kind, recorded.StartPos, recorded.EndPos))
		}
		if kp.StartPos < prevEnd {
			sc.fail("span|"+sc.fam+"|"+where+"|siblings-overlap|"+prevKind+">"+obs.Kind(k), fmt.Sprintf("under %s child %s starts at %d before the previous sibling %s ended at %d", kind, obs.Kind(k), kp.StartPos, prevKind, prevEnd))
		}
		prevEnd, prevKind = kp.EndPos, obs.Kind(k)
	}
	return want, true
}

func (sc *spanChecker) ctx(a, b int) string {
	q := func(x int) string {
		if x < 0 || x > len(sc.src) {
			return fmt.Sprint(x)
		}
		lo, hi := x-12, x+12
		if lo < 0 {
			lo = 0
		}
		if hi > len(sc.src) {
			hi = len(sc.src)
		}
		return fmt.Sprintf("%q|%q", sc.src[lo:x], sc.src[x:hi])
	}
	return "recorded " + q(a) + " expected " + q(b)
}

func (sc *spanChecker) fail(sig, what string) {
	sc.bad = true
	sc.c.Violation(sig, what, sc.w)
}

// checkSpans runs the span monitor on an error-free tree.
func checkSpans(c *core.Ctx, root ast.Vertex, src []byte, ver string) (nodes, minus int) {
	sc := &spanChecker{c: c, src: src, w: core.W(src, ver), fam: fmt.Sprintf("fam%d", obs.Fam(ver)), lines: obs.NewLines(src)}
	sc.expected(root, "", "", false)
	return sc.nodes, sc.minus
}
