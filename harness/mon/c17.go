package mon

import (
	"bytes"
	"fmt"
	"github.com/z7zmey/php-parser/pkg/ast"
	"strings"

	"verif/harness/core"
	"verif/harness/gen"
	"verif/harness/obs"

	"github.com/z7zmey/php-parser/pkg/visitor/formatter"
)

// C17 — formatting preserves the program, is canonical and idempotent.
//
// For a source that parses cleanly: F = print(format(parse(src))).
//   format-panic / print-panic : the formatter or the printer panics;
//   reparse-error              : F does not parse cleanly;
//   structure-changed          : parse(F) differs in structure (kinds, roles, values) from parse(src);
//   not-idempotent             : print(format(parse(F))) != F;
//   layout-dependent           : two whitespace-only layouts of the same program give different F.
// Attribution: a failing program is reduced on the generator's abstract tree to the deepest
// sub-construct that still fails when rendered as a stand-alone program (statement as is,
// expression as an expression statement, class member inside a class); the signature is the
// failure class plus the kind of that focal construct (plus the panic site).

type fmtResult struct {
	out    []byte
	class  string
	detail string
}

func fmtOnce(src []byte, ver string) fmtResult {
	pr := obs.Parse(append([]byte(nil), src...), ver, true)
	if pr.Panic != nil || pr.Root == nil || len(pr.Errors) > 0 {
		d := ""
		if len(pr.Errors) > 0 {
			d = pr.Errors[0].String()
		}
		return fmtResult{class: "input-rejected", detail: d}
	}
	if p := obs.Try(func() { pr.Root.Accept(formatter.NewFormatter()) }); p != nil {
		site := strings.SplitN(p.Sig, "|", 3)[1]
		return fmtResult{class: "format-panic:" + site, detail: p.Msg}
	}
	var buf bytes.Buffer
	pv, pp := printTree(pr.Root, nil)
	if pp != nil {
		site := strings.SplitN(pp.Sig, "|", 3)[1]
		return fmtResult{class: "print-panic:" + site, detail: pp.Msg}
	}
	buf.Write(pv.Buf.Bytes())
	return fmtResult{out: buf.Bytes()}
}

// One formatter object may format many trees, and a formatted tree may be printed later: the worker keeps a
// long-lived formatter; every program that passed the single-source checks is formatted by it as well, and
// printed only after the NEXT program has been formatted — the text must be what a new formatter produces.
var c17Long struct {
	f       ast.Visitor
	pending ast.Vertex
	want    []byte
	src     []byte
	ver     string
}

func c17LongLived(c *core.Ctx, src []byte, ver string, want []byte) {
	pr := obs.Parse(append([]byte(nil), src...), ver, true)
	if pr.Panic != nil || pr.Root == nil || len(pr.Errors) > 0 {
		return
	}
	if c17Long.f == nil {
		c17Long.f = formatter.NewFormatter()
	}
	if p := obs.Try(func() { pr.Root.Accept(c17Long.f) }); p != nil {
		c17Long.f, c17Long.pending = nil, nil
		c.Violation("format|long-lived-formatter|"+p.Sig, "a formatter that has formatted other trees before panicked on a program a new formatter formats: "+p.Msg, core.W(src, ver))
		return
	}
	if c17Long.pending != nil {
		pv, pp := printTree(c17Long.pending, nil)
		c.Add("trees_printed_after_the_formatter_formatted_another_tree", 1)
		if pp == nil && !bytes.Equal(pv.Buf.Bytes(), c17Long.want) {
			c.Violation("format|long-lived-formatter|earlier-tree-differs", "a tree formatted by a long-lived formatter and printed after the same formatter had formatted the next tree differs from the text of a new formatter: "+obs.FirstDiff(string(c17Long.want), pv.Buf.String()), core.W(c17Long.src, c17Long.ver).With("next_program", obsQuote(src, 200)))
			c17Long.f = nil
		}
	}
	c17Long.pending, c17Long.want, c17Long.src, c17Long.ver = pr.Root, want, src, ver
}

// fmtCheck runs the single-source checks; class "" = all held.
func fmtCheck(src []byte, ver string) fmtResult {
	p0 := obs.Parse(append([]byte(nil), src...), ver, true)
	if p0.Panic != nil || p0.Root == nil || len(p0.Errors) > 0 {
		return fmtResult{class: "input-rejected"}
	}
	s0 := obs.StructureCanon(p0.Root)
	f1 := fmtOnce(src, ver)
	if f1.class != "" {
		return f1
	}
	p1 := obs.Parse(append([]byte(nil), f1.out...), ver, true)
	if p1.Panic != nil {
		return fmtResult{out: f1.out, class: "reparse-panic", detail: p1.Panic.Msg}
	}
	if len(p1.Errors) > 0 || p1.Root == nil {
		d := "nil root"
		if len(p1.Errors) > 0 {
			d = p1.Errors[0].String()
		}
		return fmtResult{out: f1.out, class: "reparse-error", detail: d + " in formatted text " + obsQuote(f1.out, 300)}
	}
	if s1 := obs.StructureCanon(p1.Root); s1 != s0 {
		return fmtResult{out: f1.out, class: "structure-changed", detail: obs.FirstDiff(s0, s1) + " | formatted text " + obsQuote(f1.out, 200)}
	}
	f2 := fmtOnce(f1.out, ver)
	if f2.class != "" {
		return fmtResult{out: f1.out, class: "reformat-" + f2.class, detail: f2.detail}
	}
	if !bytes.Equal(f2.out, f1.out) {
		return fmtResult{out: f1.out, class: "not-idempotent", detail: obs.FirstDiff(string(f1.out), string(f2.out))}
	}
	return fmtResult{out: f1.out}
}

var c17WsLayouts = []int{gen.LayCanon, gen.LayMinimal, gen.LayLF, gen.LayCRLF, gen.LayLF}

// fmtCheckToks: single-source checks on the canonical layout plus layout invariance.
func fmtCheckToks(toks []gen.Tok, ver string, r *core.Rand) (fmtResult, []byte) {
	gen.NoTrailing = true
	defer func() { gen.NoTrailing = false }()
	base := gen.Render(toks, gen.LayCanon, r, nil)
	res := fmtCheck(base, ver)
	if res.class != "" {
		return res, base
	}
	for i, m := range c17WsLayouts[1:] {
		v := gen.Render(toks, m, core.NewRand(int64(i), "c17lay", len(toks)), nil)
		fv := fmtOnce(v, ver)
		if fv.class == "input-rejected" {
			continue // C08's business
		}
		if fv.class != "" {
			return fmtResult{class: fv.class, detail: fv.detail}, v
		}
		if !bytes.Equal(fv.out, res.out) {
			return fmtResult{class: "layout-dependent", detail: fmt.Sprintf("layouts %q and %q format differently: %s", obsQuote(base, 120), obsQuote(v, 120), obs.FirstDiff(string(res.out), string(fv.out)))}, v
		}
	}
	return res, base
}

var c17Members = map[string]bool{"StmtClassMethod": true, "StmtPropertyList": true, "StmtClassConstList": true, "StmtTraitUse": true}
var c17NotStandalone = map[string]bool{
	"ScalarEncapsedStringPart": true, "ScalarEncapsedStringVar": true, "ScalarEncapsedStringBrackets": true, "ExprArrayItem": true, "ExprClosureUse": true, "ExprList": true,
	"StmtCase": true, "StmtDefault": true, "StmtCatch": true, "StmtFinally": true, "StmtElse": true, "StmtElseIf": true, "StmtConstant": true, "StmtProperty": true, "StmtStaticVar": true,
	"StmtUse": true, "StmtTraitUseAlias": true, "StmtTraitUsePrecedence": true, "Root": true,
}

// standalone renders a sub-construct as a program of its own; ok=false if it cannot stand alone.
func c17Standalone(n *gen.Node) ([]gen.Tok, bool) {
	k := n.Kind
	open := []gen.Tok{{S: "<?php", Gap: gen.GapNone}, {S: "", Gap: gen.GapNeedWS}}
	switch {
	case c17NotStandalone[k]:
		return nil, false
	case c17Members[k]:
		t := append(open, gen.Tok{S: "class"}, gen.Tok{S: "Zz"}, gen.Tok{S: "{"})
		t = append(t, n.Tokens()...)
		return append(t, gen.Tok{S: "}"}), true
	case k == "StmtStmtList":
		toks := n.Tokens()
		if len(toks) == 0 || toks[0].S != "{" {
			return nil, false
		}
		return append(open, toks...), true
	case strings.HasPrefix(k, "Stmt"):
		return append(open, n.Tokens()...), true
	case strings.HasPrefix(k, "Expr"), strings.HasPrefix(k, "Scalar"):
		t := append(open, n.Tokens()...)
		t = append(t, gen.Tok{S: ";", Gap: gen.GapNone})
		if n.Kind == "ScalarHeredoc" || n.HasFlag(gen.FFlex73) || strings.Contains(n.Canon(), "ScalarHeredoc") {
			t = append(t, gen.Tok{S: "", Gap: gen.GapNL})
		}
		return t, true
	}
	return nil, false
}

// c17Focal reduces a failing construct to the deepest failing stand-alone sub-construct.
func c17Focal(n *gen.Node, ver string, r *core.Rand, budget *int) (*gen.Node, fmtResult, []byte) {
	var visit func(x *gen.Node) (*gen.Node, fmtResult, []byte)
	visit = func(x *gen.Node) (*gen.Node, fmtResult, []byte) {
		for _, k := range x.Kids {
			kids := k.L
			if !k.List {
				kids = []*gen.Node{k.N}
			}
			for _, ch := range kids {
				if ch == nil || *budget <= 0 {
					continue
				}
				if toks, ok := c17Standalone(ch); ok {
					*budget--
					res, src := fmtCheckToks(toks, ver, r)
					if res.class != "" && res.class != "input-rejected" {
						if f, fr, fs := visit(ch); f != nil {
							return f, fr, fs
						}
						return ch, res, src
					}
					continue // this child is fine as a whole: nothing below it fails on its own
				}
				if f, fr, fs := visit(ch); f != nil {
					return f, fr, fs
				}
			}
		}
		return nil, fmtResult{}, nil
	}
	return visit(n)
}

func c17Report(c *core.Ctx, root *gen.Node, fam int, ver string, res fmtResult, src []byte, r *core.Rand) {
	budget := 400
	focal, fres, fsrc := c17Focal(root, ver, r, &budget)
	kind := "whole-program"
	if focal != nil {
		kind, res, src = focal.Kind, fres, fsrc
	}
	c.Violation(fmt.Sprintf("format|%s|%s", res.class, kind), fmt.Sprintf("%s (focal construct %s, family %d): %s", res.class, kind, fam, res.detail), core.W(src, ver))
}

func c17Case(c *core.Ctx, idx int) {
	r := core.NewRand(c.P.Seed, "C17", idx)
	fam := 7
	if r.Chance(1, 3) {
		fam = 5
	}
	flex := fam == 7 && r.Chance(1, 2)
	g := gen.NewG(r.Split("prog"), gen.Opts{Fam: fam, NoHTML: true, MaxDepth: r.Range(1, 3), MaxStmts: r.Range(1, 3), Formatter: true, Flex73: flex})
	root := g.Program()
	ver := progVersion(r, fam, root.HasFlag(gen.FFlex73))
	toks := root.Tokens()
	c.Inflight(gen.Render(toks, gen.LayCanon, r, nil), "C17 "+ver)
	res, src := fmtCheckToks(toks, ver, r)
	kinds := map[string]int{}
	root.CountKinds(kinds)
	for k := range kinds {
		c.Cover("constructs", k)
	}
	switch res.class {
	case "":
		c.Add("programs_formatted_and_checked", 1)
		c.NonTrivial(src, []byte(ver))
		c17LongLived(c, src, ver, res.out)
		if c.WantSample() && len(src) > 30 && len(src) < 200 {
			c.Sample(map[string]interface{}{"source": string(src), "formatted": string(res.out), "version": ver, "checks": "reparse, same structure, idempotent, 4 whitespace layouts format identically"})
		}
	case "input-rejected":
		c.Inconclusive("generated program not accepted (C03's business)")
	default:
		c17Report(c, root, fam, ver, res, src, r)
	}
}

// c17ScaledSkip: scaled shapes that contain a construct recorded as a formatter finding (§7 #30) or that the
// formatter's own conventions make pointless (token-internal blanks); every other shape must pass.
var c17ScaledSkip = map[string]string{
	"keyed-array-items":            "array with a trailing comma (recorded finding C17 #30)",
	"many-comments-between-tokens": "array with a trailing comma (recorded finding)",
	"nested-array-calls":           "empty array() (recorded finding)",
	"html-php-alternation":         "inline HTML (recorded finding)",
	"inline-html-many-lines":       "inline HTML (recorded finding)",
	"nowdoc-many-lines":            "nowdoc becomes a heredoc (recorded finding)",
}

// c17Scaled: one construct repeated or nested n times (gen.ScaledShapes) through the single-source checks:
// counts, nesting depth and list lengths that the 1-3 statement programs never reach.
func c17Scaled(c *core.Ctx, idx int) {
	r := core.NewRand(c.P.Seed, "C17scaled", idx)
	sh := gen.ScaledShapes[r.Intn(len(gen.ScaledShapes))]
	if _, skip := c17ScaledSkip[sh.Name]; skip {
		return
	}
	fam, ver := 7, r.Pick("7.4", "7.2", "7.0")
	if sh.Fam == 0 && r.Chance(1, 3) {
		fam, ver = 5, r.Pick("5.6", "5.4")
	}
	n := r.Range(1, 12)
	if r.Chance(1, 3) {
		n = r.Range(12, 60)
	}
	src := []byte(sh.Make(n, "\n"))
	c.Inflight(src, "C17 scaled "+ver)
	res := fmtCheck(src, ver)
	switch res.class {
	case "":
		c.Add("scaled_programs_formatted_and_checked", 1)
		c.Cover("scaled_shapes", sh.Name)
		c.Max("max_repetitions_or_depth_formatted", int64(n))
		c.NonTrivial(src, []byte(ver))
	case "input-rejected":
		c.Inconclusive("scaled program not accepted")
	default:
		c.Violation(fmt.Sprintf("format|%s|scaled:%s", strings.SplitN(res.class, ":", 2)[0], sh.Name), fmt.Sprintf("%s on the scaled program %s (n=%d, PHP %d): %s", res.class, sh.Name, n, fam, res.detail), core.W(src, ver).With("shape", sh.Name).With("n", fmt.Sprint(n)))
	}
}

func init() {
	core.Register(&core.Check{
		ID:   "C17",
		Rule: "cases = known-finding witnesses ++ generated PHP-mode programs (G1, 1-3 statements, depth 1-3, both families) in the canonical layout (format, print, reparse, structure equality, idempotence) and 4 further whitespace-only layouts (identical formatted text); every passing program is also formatted by the worker's long-lived formatter and printed only after that formatter has formatted the next program (same text as a new formatter); a failing program is reduced on the abstract tree to its deepest failing stand-alone sub-construct; every 25th case is a scaled program (one construct repeated or nested 1..60 times, 65 shapes) through the single-source checks; non-trivial = program that passed through all checks; distinct by (source, version)",
		Assumptions: []string{
			"structure = kinds, roles, order and Value bytes",
			"whitespace-only layouts vary blanks and line terminators between tokens (no comments, nothing after the last token)",
			"formatter defects are recorded per (failure class, focal construct kind); a new defect in a kind that already fails in the same class is not distinguishable",
		},
		Plan: func(p core.Params) int { return p.Pick(100000, 2000000) },
		Run: func(c *core.Ctx, idx int) {
			if idx%25 == 7 {
				c17Scaled(c, idx)
				return
			}
			c17Case(c, idx)
		},
		RunWitness: func(c *core.Ctx, w core.Witness) {
			res := fmtCheck(w.Src, w.Ver)
			if res.class == "" && w.Cfg["variant"] != "" {
				v := fmtOnce([]byte(w.Cfg["variant"]), w.Ver)
				if v.class == "" && !bytes.Equal(v.out, res.out) {
					res = fmtResult{class: "layout-dependent", detail: obs.FirstDiff(string(res.out), string(v.out))}
				}
			}
			if res.class != "" && res.class != "input-rejected" {
				c.Violation(fmt.Sprintf("format|%s|witness:%s", res.class, w.Cfg["tag"]), res.class+": "+res.detail, core.W(w.Src, w.Ver))
			}
			c.NonTrivial(w.Src)
		},
		MinNonTrivial: 200,
	})
}
