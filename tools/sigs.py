#!/usr/bin/env python3
"""Development aid: list the replay files of a property grouped by signature."""
import json, glob, sys
pid = sys.argv[1]
pat = sys.argv[2] if len(sys.argv) > 2 else ""
n = int(sys.argv[3]) if len(sys.argv) > 3 else 400
for f in sorted(glob.glob("/verif/replay/%s/*.json" % pid)):
    v = json.load(open(f))
    if pat and pat not in v["signature"]:
        continue
    print("##", v["signature"][:200])
    print("   ", v["what"][:n].replace("\n", "\\n"))
    print("    ver=%s cfg=%s" % (v["witness"].get("version"), v["witness"].get("config")))
