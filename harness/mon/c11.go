package mon

import (
	"bytes"
	"encoding/json"
	"fmt"
	"github.com/z7zmey/php-parser/pkg/ast"
	"github.com/z7zmey/php-parser/pkg/visitor"
	"github.com/z7zmey/php-parser/pkg/visitor/traverser"
	"io"
	"os"
	"os/exec"
	"path/filepath"
	"regexp"
	"runtime"
	"sort"
	"strings"
	"sync"
	"sync/atomic"

	"verif/harness/core"
	"verif/harness/gen"
	"verif/harness/obs"

	"github.com/z7zmey/php-parser/pkg/version"
)

// C11 — concurrent use on different inputs is safe and deterministic.
//
// One case = one batch: N goroutines (2..32) run whole pipelines (parse with or without
// callback under a PRNG version, print, dump x2, traverse with a recording visitor,
// resolve names, and — on a private tree — format + print) on different inputs, under a
// PRNG GOMAXPROCS. The concurrent phase runs FIRST; the sequential baseline of every
// pipeline is computed afterwards in the same process (so lazily initialised shared
// state is first touched concurrently). Refuting events: a pipeline result that differs
// from its sequential result; two concurrent pipelines on the same input that differ;
// a report of the Go race detector (twin C11R runs the same batches from the -race
// binary, with runtime.Gosched() injected at the lexer's verif hooks: VERIF_YIELD).
// The main (non-race) run additionally logs stage events with an atomic counter and
// reports how many distinct interleavings of the first 48 events it saw; the race twin
// carries no such instrumentation (atomics would add happens-before edges).
// The real CLI (cmd/php-parser built with -race) is run over a generated directory with
// -d -r -e -p -pb: no race report, every file rewritten exactly as the printer writes it when run alone,
// the multiset of dumps equal to the dumps computed in-process.

type c11Job struct {
	class string
	src   []byte
	ver   string
	cb    bool
	// shared: the pipeline parses the caller's buffer itself (no private copy) with a Version value that other
	// pipelines of the batch use at the same time — both are read-only for the library by contract, so the
	// race detector sees any write to them
	shared bool
	v      *version.Version
}

var c11Stage int64

type c11Event struct {
	seq   int64
	g     int
	stage int
}

// c11Pipeline runs the whole pipeline and renders every observable result.
func c11Pipeline(j c11Job, log func(stage int)) string {
	var sb strings.Builder
	src := append([]byte(nil), j.src...)
	log(0)
	var pr obs.ParseResult
	if j.shared {
		src = j.src
		pr = obs.ParseWith(src, j.v, j.cb)
	} else {
		pr = obs.Parse(src, j.ver, j.cb)
	}
	log(1)
	if pr.Panic != nil {
		return "panic:" + pr.Panic.Sig
	}
	sb.WriteString("errors:" + strings.Join(obs.ErrStrings(pr.Errors), "|") + "\n")
	if pr.Root == nil {
		return sb.String() + "nil-root"
	}
	for _, op := range []string{"print", "dump(failing-writer)", "dump+tokens+positions", "print(failing-writer)", "dump", "traverse(recording)", "resolve", "dump+positions", "dump+tokens"} {
		out, p := c13Run(op, pr.Root, src)
		if p != nil {
			out = "panic:" + p.Sig
		}
		fmt.Fprintf(&sb, "%s:%016x:%d\n", op, core.Hash64([]byte(out)), len(out))
		log(2)
	}
	// formatting needs a private tree (it rewrites tokens): format + print a second parse
	if len(pr.Errors) == 0 {
		fr := fmtOnce(j.src, j.ver)
		fmt.Fprintf(&sb, "format:%s:%016x:%d\n", fr.class, core.Hash64(fr.out), len(fr.out))
		log(2)
	}
	if !bytes.Equal(src, j.src) {
		sb.WriteString("SOURCE-MODIFIED\n")
	}
	return sb.String()
}

// c11LexemeSoup: many literals and names whose spellings collide under the normalisations a cache key might use
// (radix prefix stripped, letter case folded, separators / blanks / quotes dropped): the same digits under four
// radices, one name in three letter cases, one cast in four spellings, one heredoc label with different bodies.
func c11LexemeSoup(r *core.Rand) []byte {
	digits := []string{"1" + strings.Repeat("0", r.Range(0, 22)), strings.Repeat("1", r.Range(1, 24)), strings.Repeat("7", r.Range(1, 24)), strings.Repeat("9", r.Range(1, 20)), "8" + strings.Repeat("0", r.Range(14, 16)), "777777777777777777777", "08", "8", "17"}
	lit := func() string {
		switch r.Intn(10) {
		case 0, 1, 2:
			d := digits[r.Intn(len(digits))]
			switch r.Intn(5) {
			case 0:
				return "0x" + d
			case 1:
				if strings.Trim(d, "01") == "" {
					return "0b" + d
				}
			case 2:
				if strings.Trim(d, "01234567") == "" {
					return "0" + d
				}
			case 3:
				if len(d) > 2 {
					return d[:1] + "_" + d[1:]
				}
			}
			return d
		case 3:
			return r.Pick("1e3", "1E3", "1.0", "1.00", ".5", "0.5", "1e+3", "10e2")
		case 4:
			return r.Pick("'abc'", "\"abc\"", "'ABC'", "\"a\\n\"", "'a\\n'", "\"$abc\"", "\"{$abc}\"", "`abc`")
		case 5:
			return r.Pick("foo", "FOO", "Foo", "\\foo", "A\\b", "a\\B", "namespace\\foo") + r.Pick("()", "", "::X", "::x")
		case 6:
			return r.Pick("(int)", "(INT)", "( int )", "(integer)", "(bool)", "(boolean)", "(float)", "(double)", "(real)", "(string)", "(binary)") + " $v"
		case 7:
			return r.Pick("__LINE__", "__line__", "__Line__", "__CLASS__", "__class__", "TRUE", "true", "NULL", "null")
		case 8:
			return r.Pick("$a", "$A", "$abc", "$ABC", "$this", "$THIS", "$$a", "${'a'}")
		}
		return "<<<" + r.Pick("A", "A", "'A'", "\"A\"", "a") + "\n" + r.Pick("x", "y", "$v", "A1") + "\n" + r.Pick("A", "A", "a")[:1] + "\n"
	}
	var sb strings.Builder
	sb.WriteString("<?php\n")
	for i, n := 0, r.Range(10, 80); i < n; i++ {
		l := lit()
		if strings.HasPrefix(l, "<<<") {
			// the closing label must match the opener's
			lab := strings.Trim(strings.SplitN(l[3:], "\n", 2)[0], "'\"")
			body := strings.SplitN(l, "\n", 3)[1]
			l = strings.SplitN(l, "\n", 2)[0] + "\n" + body + "\n" + lab
			fmt.Fprintf(&sb, "$v%d = %s;\n", i, l)
			continue
		}
		fmt.Fprintf(&sb, "$v%d = %s;\n", i, l)
	}
	return []byte(sb.String())
}

type c11AuxJob struct {
	Src []byte
	Ver string
	Cb  bool
}

func init() {
	core.RegisterAux("c11pipeline", func(in []byte) []byte {
		var j c11AuxJob
		if json.Unmarshal(in, &j) != nil {
			return []byte("bad job")
		}
		return []byte(c11Pipeline(c11Job{src: j.Src, ver: j.Ver, cb: j.Cb}, func(int) {}))
	})
}

func c11Deep(r *core.Rand) []byte {
	n := r.Range(20, 120)
	switch r.Intn(4) {
	case 0:
		return []byte("<?php $a = " + strings.Repeat("[", n) + "1" + strings.Repeat("]", n) + ";")
	case 1:
		return []byte("<?php " + strings.Repeat("if ($a) { ", n) + "$b;" + strings.Repeat(" }", n))
	case 2:
		return []byte("<?php $a = " + strings.Repeat("f(", n) + "1" + strings.Repeat(")", n) + ";")
	}
	return []byte("<?php " + strings.Repeat("function f() { ", n/2) + strings.Repeat("}", n/2))
}

func c11Jobs(seed int64, label string, idx, n int) []c11Job {
	r := core.NewRand(seed, label, idx)
	jobs := make([]c11Job, n)
	for i := range jobs {
		var pc parseCase
		if r.Chance(1, 8) {
			pc = parseCase{c11Deep(r), pickVersion(r), "deep"}
		} else if r.Chance(1, 7) {
			pc = parseCase{c11LexemeSoup(r), pickVersion(r), "lexeme-soup"}
		} else if r.Chance(1, 9) {
			// a long flat operator chain (left-deep tree)
			var sb strings.Builder
			sb.WriteString("<?php $r = $a0")
			op := r.Pick(" . ", " + ", " - ", " * ", " && ", " ?? ", " . ", " . ")
			for k, m := 1, r.Range(5, 400); k < m; k++ {
				if r.Chance(1, 6) {
					op = r.Pick(" . ", " + ", " . ", " | ", " and ")
				}
				fmt.Fprintf(&sb, "%s$a%d", op, k)
			}
			sb.WriteString(";")
			pc = parseCase{[]byte(sb.String()), pickVersion(r), "operator-chain"}
		} else if r.Chance(1, 10) {
			// PHP 5 compile-time errors (reported from grammar actions, with their own error values) at PRNG places
			src := "<?php" + strings.Repeat("\n", r.Intn(6)) + strings.Repeat(" $x;", r.Intn(4))
			for k, m := 0, r.Range(1, 3); k < m; k++ {
				src += " " + gen.SemanticErrors5[r.Intn(len(gen.SemanticErrors5))] + strings.Repeat("\n", r.Intn(3))
			}
			pc = parseCase{[]byte(src), gen.Versions5[r.Intn(len(gen.Versions5))], "php5-semantic-errors"}
		} else {
			pc = genParseCase(seed, label+"job", idx*64+i, 30)
		}
		if len(pc.Src) > 20000 {
			pc.Src = pc.Src[:20000]
		}
		jobs[i] = c11Job{class: pc.Class, src: pc.Src, ver: pc.Ver, cb: r.Chance(3, 4)}
	}
	// same input twice in one batch
	if n >= 2 && r.Bool() {
		jobs[n-1] = jobs[0]
	}
	// half of the batches share: one Version value per version string for the whole batch, and the duplicated
	// input is one buffer parsed by two goroutines at once
	if r.Bool() {
		vs := map[string]*version.Version{}
		for i := range jobs {
			if _, ok := vs[jobs[i].ver]; !ok {
				vs[jobs[i].ver] = obs.Ver(jobs[i].ver)
			}
			jobs[i].shared, jobs[i].v = true, vs[jobs[i].ver]
		}
	}
	return jobs
}

func c11Batch(c *core.Ctx, label string, idx int, instrumented bool) {
	r := core.NewRand(c.P.Seed, label+"cfg", idx)
	n := []int{2, 4, 8, 16, 32}[r.Intn(5)]
	procs := []int{1, 2, 4, 16}[r.Intn(4)]
	jobs := c11Jobs(c.P.Seed, label, idx, n)
	old := runtime.GOMAXPROCS(procs)
	defer runtime.GOMAXPROCS(old)
	c.Inflight(jobs[0].src, fmt.Sprintf("C11 batch of %d pipelines, GOMAXPROCS=%d", n, procs))

	results := make([]string, n)
	var events []c11Event
	var evMu sync.Mutex
	var wg sync.WaitGroup
	start := make(chan struct{})
	for i := range jobs {
		wg.Add(1)
		go func(i int) {
			defer wg.Done()
			<-start
			log := func(int) {}
			if instrumented {
				log = func(stage int) {
					s := atomic.AddInt64(&c11Stage, 1)
					evMu.Lock()
					events = append(events, c11Event{s, i, stage})
					evMu.Unlock()
				}
			}
			results[i] = c11Pipeline(jobs[i], log)
		}(i)
	}
	close(start)
	wg.Wait()
	c.Add("pipelines_run_concurrently", int64(n))
	c.Cover("goroutines", fmt.Sprint(n))
	c.Cover("gomaxprocs", fmt.Sprint(procs))

	// sequential baseline afterwards
	for i, j := range jobs {
		want := c11Pipeline(j, func(int) {})
		if results[i] != want {
			cfg := "callback"
			if !j.cb {
				cfg = "nil-callback"
			}
			c.Violation("concurrent|result-differs|"+c11DiffLine(want, results[i]), fmt.Sprintf("pipeline %d of %d run concurrently (GOMAXPROCS=%d) differs from the same pipeline run alone: %s", i, n, procs, obs.FirstDiff(want, results[i])), core.W(j.src, j.ver).With("callback", cfg).With("goroutines", fmt.Sprint(n)))
			return
		}
		for k := 0; k < i; k++ {
			if bytes.Equal(jobs[k].src, j.src) && jobs[k].ver == j.ver && jobs[k].cb == j.cb && results[k] != results[i] {
				c.Violation("concurrent|same-input-differs", "two concurrent pipelines on the same input produced different results", core.W(j.src, j.ver))
				return
			}
		}
	}
	if !c11SharedTraverser(c, jobs, procs, instrumented) {
		return
	}
	// "the result obtained when the same work is done alone": one pipeline of the batch is also run by a fresh
	// process that has done nothing else — a cache that only ever grows gives the same answer again and again
	// within one process, whatever it has been poisoned with
	if instrumented {
		fresh := 0
		for k, j := range jobs {
			// one job of every third batch, and up to two lexeme-soup jobs of any batch
			if !(idx%3 == 0 && k == int(uint(idx/3)%uint(len(jobs)))) && !(j.class == "lexeme-soup" && fresh < 2) {
				continue
			}
			fresh++
			in, _ := json.Marshal(c11AuxJob{Src: j.src, Ver: j.ver, Cb: j.cb})
			out, err := core.FreshProcess("c11pipeline", in)
			if err != nil {
				c.Inconclusive("fresh-process pipeline could not be run")
				continue
			}
			c.Add("pipelines_compared_with_a_fresh_process", 1)
			if string(out) != results[k] {
				c.Violation("concurrent|differs-from-fresh-process|"+c11DiffLine(string(out), results[k]), fmt.Sprintf("pipeline %d of the batch differs from the same pipeline run alone in a fresh process: %s", k, obs.FirstDiff(string(out), results[k])), core.W(j.src, j.ver).With("goroutines", fmt.Sprint(n)).With("class", j.class))
				return
			}
		}
	}
	if instrumented {
		sort.Slice(events, func(a, b int) bool { return events[a].seq < events[b].seq })
		var sb strings.Builder
		for k, e := range events {
			if k >= 48 {
				break
			}
			fmt.Fprintf(&sb, "%d.%d ", e.g, e.stage)
		}
		c.NonTrivial([]byte(label), []byte(sb.String()))
		// interleaved at all? (some event of goroutine b between two events of goroutine a)
		inter := false
		last := map[int]int{}
		for k, e := range events {
			if p, ok := last[e.g]; ok && p != k-1 {
				inter = true
			}
			last[e.g] = k
		}
		if inter {
			c.Add("batches_with_interleaved_stage_events", 1)
		}
	} else {
		c.NonTrivial([]byte(label), []byte(fmt.Sprint(idx)))
	}
	if c.WantSample() && n <= 4 {
		var ins []string
		for _, j := range jobs {
			ins = append(ins, obsQuote(j.src, 80)+" @"+j.ver)
		}
		c.Sample(map[string]interface{}{"goroutines": n, "gomaxprocs": procs, "inputs": ins, "stages": "parse, print, dump(tokens+positions), dump, traverse, resolve", "compared_with": "sequential run of the same pipelines afterwards"})
	}
}

// c11SharedTraverser: ONE Traverser value (it holds nothing but its visitor) walks the trees of the batch on all
// goroutines at once. In the uninstrumented run the shared visitor counts the presentations of every node under
// a mutex: every node of every tree exactly once, nothing else. In the race twin the shared visitor is the
// stateless visitor.Null, so that the only shared state the race detector can see is the traverser's own.
func c11SharedTraverser(c *core.Ctx, jobs []c11Job, procs int, counting bool) bool {
	var roots []ast.Vertex
	var owners []int
	for i, j := range jobs {
		pr := obs.Parse(append([]byte(nil), j.src...), j.ver, true)
		if pr.Panic == nil && pr.Root != nil {
			roots = append(roots, pr.Root)
			owners = append(owners, i)
		}
	}
	if len(roots) < 2 {
		return true
	}
	var mu sync.Mutex
	counts := map[ast.Vertex]int{}
	var v ast.Visitor = &visitor.Null{}
	if counting {
		v = &FuncVisitor{F: func(n ast.Vertex, _ string) {
			mu.Lock()
			counts[n]++
			mu.Unlock()
		}}
	}
	shared := traverser.NewTraverser(v)
	panics := make([]*obs.Panic, len(roots))
	var wg sync.WaitGroup
	start := make(chan struct{})
	for i := range roots {
		wg.Add(1)
		go func(i int) {
			defer wg.Done()
			<-start
			panics[i] = obs.Try(func() { shared.Traverse(roots[i]) })
		}(i)
	}
	close(start)
	wg.Wait()
	c.Add("trees_walked_by_one_shared_traverser", int64(len(roots)))
	for i, p := range panics {
		if p != nil {
			j := jobs[owners[i]]
			c.Violation("concurrent|shared-traverser|"+p.Sig, "a Traverser shared by the goroutines of the batch panicked: "+p.Msg, core.W(j.src, j.ver).With("goroutines", fmt.Sprint(len(roots))))
			return false
		}
	}
	if !counting {
		return true
	}
	total := 0
	for i, root := range roots {
		bad := ""
		obs.Walk(root, func(n, parent ast.Vertex, role string, _ int) bool {
			total++
			if k := counts[n]; k != 1 && bad == "" {
				bad = fmt.Sprintf("%s<%s.%s was presented %d times", obs.Kind(n), obs.Kind(parent), role, k)
			}
			return true
		})
		if bad != "" {
			j := jobs[owners[i]]
			c.Violation("concurrent|shared-traverser|node-not-presented-exactly-once", fmt.Sprintf("one Traverser walking %d trees on %d goroutines (GOMAXPROCS=%d): %s", len(roots), len(roots), procs, bad), core.W(j.src, j.ver).With("goroutines", fmt.Sprint(len(roots))))
			return false
		}
	}
	sum := 0
	for _, k := range counts {
		sum += k
	}
	if sum != total {
		j := jobs[owners[0]]
		c.Violation("concurrent|shared-traverser|foreign-nodes-presented", fmt.Sprintf("the shared visitor received %d presentations, the trees hold %d nodes", sum, total), core.W(j.src, j.ver))
		return false
	}
	c.Add("nodes_presented_exactly_once_by_a_shared_traverser", int64(total))
	return true
}

// c11Predecessors: "parsing the same input twice always gives identical trees and errors" — whatever
// was parsed in between. One case = one input X and a list of predecessors Y (X itself, truncations of
// X, X with a backslash put before one of its quote/dollar/brace bytes — whole and cut right behind it —
// so that Y drives the lexer through the same offsets as X and stops in the middle of a construct, and
// unrelated inputs): after every Parse(Y) the result of Parse(X) must equal the first one. State that
// survives a Parse call (a recycled lexer, a cache keyed by offset, a package-level table) shows here
// without any concurrency.
func c11Predecessors(c *core.Ctx, idx int) {
	r := core.NewRand(c.P.Seed, "C11pred", idx)
	var x parseCase
	for try := 0; try < 20; try++ {
		x = genParseCase(c.P.Seed, "C11predX", idx*32+try, 40)
		if len(x.Src) >= 6 && len(x.Src) <= 6000 {
			break
		}
	}
	if len(x.Src) > 6000 {
		x.Src = x.Src[:6000]
	}
	if r.Chance(1, 8) {
		x = parseCase{[]byte("<?php " + strings.Repeat("$y;\n", r.Intn(5)) + gen.SemanticErrors5[r.Intn(len(gen.SemanticErrors5))] + " $z;"), gen.Versions5[r.Intn(len(gen.Versions5))], "php5-semantic-errors"}
	}
	cb := r.Chance(3, 4)
	render := func() string {
		pr := obs.Parse(append([]byte(nil), x.Src...), x.Ver, cb)
		if pr.Panic != nil {
			return "panic:" + pr.Panic.Sig
		}
		return "errors:" + strings.Join(obs.ErrStrings(pr.Errors), "|") + "\n" + obs.Fingerprint(pr.Root, false)
	}
	c.Inflight(x.Src, "C11 predecessors")
	want := render()
	// the first result is also HELD while the later parses run: what it says must not change either
	heldSrc := append([]byte(nil), x.Src...)
	held := obs.Parse(heldSrc, x.Ver, true)
	renderHeld := func() string {
		if held.Panic != nil {
			return "panic"
		}
		return "errors:" + strings.Join(obs.ErrStrings(held.Errors), "|") + "\n" + obs.Fingerprint(held.Root, false)
	}
	heldWant := renderHeld()
	var preds [][]byte
	var kinds []string
	add := func(kind string, y []byte) { preds = append(preds, y); kinds = append(kinds, kind) }
	add("same", x.Src)
	for i := 0; i < 3; i++ {
		add("truncated", x.Src[:r.Intn(len(x.Src))])
	}
	var special []int
	for p := 1; p < len(x.Src); p++ {
		switch x.Src[p] {
		case '$', '"', '`', '\'', '{', '\\':
			special = append(special, p)
		}
	}
	// every special byte (at most 48, the earliest ones first: the first escape test of X is among them)
	if len(special) > 48 {
		special = special[:48]
	}
	for _, p := range special {
		y := append([]byte(nil), x.Src...)
		y[p-1] = '\\'
		if r.Chance(1, 4) {
			add("backslash-before-special", y)
		}
		add("backslash-before-special-cut", y[:p+1])
	}
	// a predecessor that ends inside a string body exactly where a string body of X begins, on an
	// escaped byte (what a per-offset memo or a recycled string-scanning state would carry over)
	openers := 0
	for q := 4; q < len(x.Src) && openers < 4; q++ {
		if o := x.Src[q-1]; o == '"' || o == '`' || (o == '\n' && bytes.Contains(x.Src[max(0, q-24):q], []byte("<<<"))) {
			openers++
			for _, quote := range []string{"\"", "`"} {
				y := []byte("<?" + quote + strings.Repeat("a", q-4) + "\\")
				add("aligned-escaped-string-end", append(y, x.Src[q]))
			}
		}
	}
	if obs.Fam(x.Ver) == 5 {
		for i := 0; i < 2; i++ {
			add("php5-semantic-error", []byte("<?php"+strings.Repeat("\n ", r.Intn(8))+gen.SemanticErrors5[r.Intn(len(gen.SemanticErrors5))]))
		}
	}
	for i := 0; i < 2; i++ {
		add("unrelated", genParseCase(c.P.Seed, "C11predY", idx*8+i, 50).Src)
	}
	for i, y := range preds {
		ver := x.Ver
		if r.Chance(1, 3) {
			ver = pickVersion(r)
		}
		c.Inflight(y, "C11 predecessor "+kinds[i])
		obs.Parse(append([]byte(nil), y...), ver, r.Chance(1, 2))
		got := render()
		c.Add("reparses_after_a_predecessor", 1)
		c.Cover("predecessor_kind", kinds[i])
		if now := renderHeld(); now != heldWant {
			c.Violation("sequential|held-result-changed|"+kinds[i], fmt.Sprintf("the errors and tree returned by an earlier Parse call changed while later Parse calls ran (last: %s %s): %s", kinds[i], obsQuote(y, 200), obs.FirstDiff(heldWant, now)), core.W(x.Src, x.Ver).With("later_input", obsQuote(y, 400)))
			return
		}
		if got != want {
			c.Violation("sequential|predecessor-dependent|"+kinds[i], fmt.Sprintf("Parse(X) after Parse(Y) differs from the first Parse(X) (Y: %s %s): %s", kinds[i], obsQuote(y, 200), obs.FirstDiff(want, got)), core.W(x.Src, x.Ver).With("predecessor", obsQuote(y, 400)).With("predecessor_version", ver))
			return
		}
	}
	c.NonTrivial([]byte("pred"), x.Src, []byte(x.Ver))
}

func c11DiffLine(a, b string) string {
	la, lb := strings.Split(a, "\n"), strings.Split(b, "\n")
	for i := range la {
		if i >= len(lb) || la[i] != lb[i] {
			return strings.SplitN(la[i], ":", 2)[0]
		}
	}
	return "length"
}

var c11RootRe = regexp.MustCompile(`(?m)^&ast\.Root\{`)

// c11CLI runs the real command-line tool (race build) over a generated directory.
func c11CLI(c *core.Ctx, idx int) {
	bin := filepath.Join(core.BinDir(), "php-parser-race")
	if _, err := os.Stat(bin); err != nil {
		c.Inconclusive("CLI race build missing")
		return
	}
	dir := filepath.Join(core.WorkDir(), "C11-cli", fmt.Sprintf("run%d-%d", idx, os.Getpid()))
	os.RemoveAll(dir)
	defer os.RemoveAll(dir)
	r := core.NewRand(c.P.Seed, "C11cli", idx)
	nFiles := c.P.Pick(120, 600)
	type f struct {
		path    string
		src     []byte
		printed []byte // what the printer writes for this file when run alone
		dump    string
	}
	var files []f
	for i := 0; i < nFiles; i++ {
		pc := genParseCase(c.P.Seed, "C11clifile", idx*1000+i, 10)
		pr := obs.Parse(append([]byte(nil), pc.Src...), "7.4", true)
		if pr.Panic != nil || pr.Root == nil {
			continue
		}
		sub := filepath.Join(dir, fmt.Sprintf("d%d", i%7), fmt.Sprintf("s%d", i%3))
		os.MkdirAll(sub, 0o755)
		p := filepath.Join(sub, fmt.Sprintf("f%04d.php", i))
		if os.WriteFile(p, pc.Src, 0o644) != nil {
			core.Fail("C11: cannot write %s", p)
		}
		d, _ := dumpTree(pr.Root, dumpOpts{true, true})
		pv, pp := printTree(pr.Root, pc.Src)
		if pp != nil {
			os.Remove(p)
			continue
		}
		files = append(files, f{p, pc.Src, append([]byte(nil), pv.Buf.Bytes()...), d})
	}
	_ = r
	raceLog := filepath.Join(dir, "race")
	cmd := exec.Command(bin, "-d", "-r", "-e", "-p", "-pb", "-phpver", "7.4", dir)
	cmd.Env = append(os.Environ(), "GORACE=halt_on_error=0 exitcode=0 log_path="+raceLog, "VERIF_YIELD=5")
	var stdout, stderr bytes.Buffer
	cmd.Stdout, cmd.Stderr = &stdout, &stderr
	err := cmd.Run()
	c.Add("cli_runs", 1)
	c.Add("cli_files", int64(len(files)))
	w := core.Witness{Cfg: map[string]string{"cli": "php-parser -d -r -e -p -pb -phpver 7.4 <dir>", "files": fmt.Sprint(len(files))}}
	if err != nil {
		c.Violation("cli|exit", "the CLI exited with "+err.Error()+": "+trunc(stderr.String(), 300), w)
		return
	}
	if logs, _ := filepath.Glob(raceLog + "*"); len(logs) > 0 {
		for _, l := range logs {
			var b []byte
			if f, err := os.Open(l); err == nil {
				b, _ = io.ReadAll(io.LimitReader(f, 2<<20)) // a racy tree can write gigabytes of reports
				f.Close()
			}
			if bytes.Contains(b, []byte("WARNING: DATA RACE")) {
				c.Violation("race|cli|"+c11RaceSite(string(b)), "Go race detector report in the CLI worker pool:\n"+trunc(string(b), 3000), w)
				return
			}
		}
	}
	// rewritten files
	for _, fl := range files {
		got, _ := os.ReadFile(fl.path)
		if !bytes.Equal(got, fl.printed) {
			c.Violation("cli|print-back-differs", "a file rewritten by the concurrent CLI (-pb) differs from what the printer writes for it when run alone: "+obs.FirstDiff(string(fl.printed), string(got)), core.W(fl.src, "7.4"))
			return
		}
		c.Add("cli_files_rewritten_as_when_alone", 1)
	}
	// multiset of dumps
	out := stdout.String()
	locs := c11RootRe.FindAllStringIndex(out, -1)
	var got []string
	for i, l := range locs {
		end := len(out)
		if i+1 < len(locs) {
			end = locs[i+1][0]
		}
		got = append(got, out[l[0]:end])
	}
	var want []string
	for _, fl := range files {
		want = append(want, fl.dump)
	}
	sort.Strings(got)
	sort.Strings(want)
	if len(got) != len(want) {
		c.Violation("cli|dump-count", fmt.Sprintf("the CLI dumped %d trees for %d files", len(got), len(want)), w)
		return
	}
	for i := range got {
		if strings.TrimSpace(got[i]) != strings.TrimSpace(want[i]) {
			c.Violation("cli|dump-differs", "a dump written by the concurrent CLI differs from the dump computed alone: "+obs.FirstDiff(want[i], got[i]), w)
			return
		}
	}
	c.Add("cli_dumps_compared", int64(len(got)))
	c.NonTrivial([]byte("cli"), []byte(fmt.Sprint(idx)))
}

func c11RaceSite(s string) string {
	for _, l := range strings.Split(s, "\n") {
		l = strings.TrimSpace(l)
		if strings.Contains(l, "z7zmey/php-parser") && strings.Contains(l, "(") {
			return strings.SplitN(l, "(", 2)[0]
		}
	}
	return "?"
}

func init() {
	core.Register(&core.Check{
		ID:   "C11",
		Rule: "cases = batches of 2..32 goroutines x GOMAXPROCS in {1,2,4,16}, each goroutine running a whole pipeline (parse with/without callback under a PRNG version; print; dump with and without tokens/positions; recording traversal; name resolution) on its own input from the shared workload (hostile, corpus, generated and namespace programs, deep nestings; sometimes the same input twice), concurrent phase first and the sequential baseline afterwards; every fourth case is a sequential predecessor case: Parse(X) must give the same tree and errors after each of its predecessors Parse(Y) (X itself, truncations of X, X with a backslash before a quote/dollar/brace byte whole and cut behind it, an unterminated string ending on an escaped byte exactly where a string body of X begins, unrelated inputs); the race-detector twin C11R runs such batches from the -race binary with Gosched injection at the lexer hooks, plus the real CLI (-race build) over a generated directory; non-trivial (main run) = batch, distinct by the observed order of its first 48 stage events (= distinct interleavings seen)",
		Assumptions: []string{
			"the race detector only reports races on interleavings that actually occur; the stage-event log of the uninstrumented-for-race main run shows how diverse they were",
			"pipeline results are compared through hashes of the printed text, two dumps, the visitor-method sequence and the sorted resolved names, plus the literal error list",
		},
		Plan:  func(p core.Params) int { return p.Pick(2200, 60000) },
		Twins: []string{"C11R"},
		Run: func(c *core.Ctx, idx int) {
			if idx%4 == 3 {
				c11Predecessors(c, idx)
				return
			}
			c11Batch(c, "C11", idx, true)
		},
		MinNonTrivial: 50,
	})
	core.Register(&core.Check{
		ID:      "C11R",
		Hidden:  true,
		Rule:    "race-detector twin of C11",
		Plan:    func(p core.Params) int { return p.Pick(500, 12000) },
		Race:    func(p core.Params) bool { return true },
		Env:     func(p core.Params) []string { return []string{"VERIF_YIELD=7"} },
		CaseCPU: 120,
		Run: func(c *core.Ctx, idx int) {
			if idx < c.P.Pick(2, 6) {
				c11CLI(c, idx)
				return
			}
			c11Batch(c, "C11R", idx, false)
		},
	})
}

var _ = gen.Versions5
