// vcheck is the orchestrator and the worker of the runtime-monitoring harness.
//
//	vcheck -prop C07 [-tier quick|thorough] [-seed N]     run a check (spawns workers)
//	vcheck -prop C07 -replay replay/C07/<hash>.json       re-execute one recorded case
package main

import (
	"flag"
	"fmt"
	"os"
	"strconv"

	"verif/harness/core"
	_ "verif/harness/mon"
)

func main() {
	var (
		prop   = flag.String("prop", "", "property id")
		tier   = flag.String("tier", "", "quick|thorough")
		seed   = flag.Int64("seed", -1, "seed (default $VERIF_SEED or 1)")
		replay = flag.String("replay", "", "replay file")
		wk     = flag.Bool("worker", false, "internal: worker mode")
		shard  = flag.Int("shard", 0, "internal")
		of     = flag.Int("of", 1, "internal")
		from   = flag.Int("from", 0, "internal")
		only   = flag.Int("only", -1, "internal")
		out    = flag.String("out", "", "internal")
		list   = flag.Bool("list", false, "list properties")
		aux    = flag.String("aux", "", "internal: run one auxiliary function on stdin in this fresh process and print its result")
	)
	flag.Parse()
	if *aux != "" {
		os.Exit(core.RunAux(*aux))
	}
	if d := os.Getenv("VERIF_DIR"); d != "" {
		core.VerifDir = d
	}
	if *list {
		for _, id := range core.IDs() {
			fmt.Println(id)
		}
		return
	}
	if *tier == "" {
		*tier = os.Getenv("VERIF_TIER")
	}
	if *tier == "" {
		*tier = "quick"
	}
	if *tier != "quick" && *tier != "thorough" {
		fmt.Fprintln(os.Stderr, "bad tier", *tier)
		os.Exit(2)
	}
	if *seed < 0 {
		*seed = 1
		if s := os.Getenv("VERIF_SEED"); s != "" {
			if v, err := strconv.ParseInt(s, 10, 64); err == nil {
				*seed = v
			}
		}
	}
	p := core.Params{Tier: *tier, Seed: *seed}
	switch {
	case *wk:
		os.Exit(core.RunWorker(*prop, p, *shard, *of, *from, *only, *out))
	case *replay != "":
		os.Exit(core.Replay(*prop, *replay))
	default:
		os.Exit(core.Orchestrate(*prop, p))
	}
}
