package mon

import (
	"fmt"
	"strings"

	"verif/harness/core"
	"verif/harness/gen"
	"verif/harness/obs"
)

// C10 — the PHP 5 and PHP 7 grammars agree on the syntax they share.
//
// Differential oracle: a program of the common subset (G1 with Common=true: no PHP 7-only
// syntax, no construct whose grouping changed with uniform variable syntax, none of the
// recorded divergences) in a PRNG layout is parsed under a 5.x and a 7.x version; the
// full fingerprints (kinds, values, tokens, free-floating tokens, positions) and the
// error lists must be identical.

// fpSig names the node kinds and field around the first difference of two fingerprints.
func fpSig(a, b string) string {
	i := 0
	for i < len(a) && i < len(b) && a[i] == b[i] {
		i++
	}
	ctx := func(s string) string {
		if i > len(s) {
			return "?"
		}
		p := s[:i]
		// enclosing kinds: scan back for unmatched '('
		depth := 0
		var kinds []string
		for q := len(p) - 1; q >= 0 && len(kinds) < 2; q-- {
			switch p[q] {
			case ')':
				depth++
			case '(':
				if depth == 0 {
					e := q + 1
					for e < len(s) && s[e] != ' ' && s[e] != ')' && s[e] != '#' {
						e++
					}
					kinds = append(kinds, s[q+1:e])
				} else {
					depth--
				}
			}
		}
		// field: last " Name=" before i at depth 0 relative to the innermost node
		f := "?"
		if k := strings.LastIndex(p, "="); k >= 0 {
			j := strings.LastIndexAny(p[:k], " ")
			if j >= 0 {
				f = p[j+1 : k]
			}
		}
		for l, r := 0, len(kinds)-1; l < r; l, r = l+1, r-1 {
			kinds[l], kinds[r] = kinds[r], kinds[l]
		}
		return strings.Join(kinds, ">") + "." + f
	}
	return ctx(a) + " vs " + ctx(b)
}

func c10Compare(c *core.Ctx, src []byte, v5, v7, tag string) bool {
	w := core.W(src, v5+" vs "+v7)
	c.Inflight(src, "C10 parse "+v5+" and "+v7)
	a := obs.Parse(src, v5, true)
	b := obs.Parse(src, v7, true)
	c.Add("version_pairs_compared", 1)
	if a.Panic != nil || b.Panic != nil {
		c.Inconclusive("a parse panicked (C01's business)")
		return false
	}
	ea, eb := strings.Join(obs.ErrStrings(a.Errors), "\n"), strings.Join(obs.ErrStrings(b.Errors), "\n")
	if ea != eb {
		c.Violation("grammars|errors|"+numStrip(firstLine(ea))+" vs "+numStrip(firstLine(eb))+tag, fmt.Sprintf("a common-subset program gets different errors under %s (%q) and %s (%q)", v5, firstLine(ea), v7, firstLine(eb)), w)
		return false
	}
	if len(a.Errors) > 0 {
		c.Inconclusive("common-subset program rejected by both grammars (C03's business)")
		return false
	}
	fa, fb := obs.Fingerprint(a.Root, false), obs.Fingerprint(b.Root, false)
	if fa != fb {
		c.Violation("grammars|tree|"+obs.DiffPath(a.Root, b.Root)+tag, fmt.Sprintf("trees under %s and %s differ: %s", v5, v7, obs.FirstDiff(fa, fb)), w)
		return false
	}
	return true
}

func c10Case(c *core.Ctx, idx int) {
	r := core.NewRand(c.P.Seed, "C10", idx)
	opts := gen.Opts{Fam: 5, Common: true, MaxDepth: r.Range(2, 5), MaxStmts: 7}
	if idx%40 == 11 {
		// a long program: the grammars draw tokens and positions from 1024-entry blocks at different rates
		opts.MaxStmts, opts.MaxDepth = r.Range(80, 400), r.Range(2, 3)
	}
	g := gen.NewG(r.Split("prog"), opts)
	root := g.Program()
	toks := root.Tokens()
	kinds := map[string]int{}
	root.CountKinds(kinds)
	for k := range kinds {
		c.Cover("constructs", k)
	}
	modes := []int{gen.LayCanon, []int{gen.LayMinimal, gen.LayLF, gen.LayCRLF, gen.LayComments, gen.LayMixed}[r.Intn(5)]}
	ok := true
	for _, m := range modes {
		src := gen.Render(toks, m, r.Split("lay"), nil)
		v5 := gen.Versions5[r.Intn(len(gen.Versions5))]
		v7 := gen.Versions7[r.Intn(len(gen.Versions7))]
		if !c10Compare(c, src, v5, v7, "") {
			ok = false
			break
		}
		c.Cover("version_pair", v5+"/"+v7)
		c.Cover("layouts", gen.LayoutNames[m])
	}
	c.Max("max_tokens_in_a_compared_program", int64(len(toks)))
	if len(toks) > 1024 {
		c.Add("programs_with_more_than_1024_tokens", 1)
	}
	if ok {
		c.NonTrivial([]byte(root.Canon()))
		if c.WantSample() && len(toks) > 12 && len(toks) < 50 {
			c.Sample(map[string]interface{}{"common_subset_program": string(gen.Render(toks, gen.LayCanon, r, nil)), "compared": "full fingerprint (kinds, values, tokens, free-floating, positions) under a 5.x and a 7.x version"})
		}
	}
}

func init() {
	core.Register(&core.Check{
		ID:   "C10",
		Rule: "cases = known-finding witnesses ++ generated common-subset programs (G1 with Common: shared syntax only, no uniform-variable-syntax regroupings) in the canonical and one PRNG layout (every 40th program has up to 400 top-level statements: several pool blocks), each parsed under a PRNG 5.x and a PRNG 7.x version; non-trivial = both parses error-free and fingerprints compared; distinct by expected structure",
		Assumptions: []string{
			"the generator's Common mode defines the shared subset: no PHP 7-only syntax, no $$a[..], no member access/call/dimension after a static member, no call results as callee, no class-reference chains after new, no goto (recorded divergences)",
		},
		Plan: func(p core.Params) int { return p.Pick(100000, 1500000) },
		Run:  func(c *core.Ctx, idx int) { c10Case(c, idx) },
		RunWitness: func(c *core.Ctx, w core.Witness) {
			if c10Compare(c, w.Src, "5.6", "7.4", "|witness:"+w.Cfg["tag"]) {
				c.NonTrivial(w.Src)
			}
		},
		MinNonTrivial: 500,
	})
}
