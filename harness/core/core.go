// Package core is the execution framework of the runtime-monitoring harness:
// deterministic case enumeration, child-process isolation with an in-flight
// record and a CPU-time watchdog, merging of worker observations, known-finding
// discipline, evidence and replay files.
package core

import (
	"bytes"
	"encoding/json"
	"fmt"
	"io"
	"os"
	"os/exec"
	"path/filepath"
	"regexp"
	"runtime"
	"runtime/debug"
	"sort"
	"strconv"
	"strings"
	"sync"
	"sync/atomic"
	"syscall"
	"time"
)

// Params of a run.
type Params struct {
	Tier string
	Seed int64
}

func (p Params) Thorough() bool { return p.Tier == "thorough" }

// Pick returns q for the quick tier and t for the thorough tier.
func (p Params) Pick(q, t int) int {
	if p.Thorough() {
		return t
	}
	return q
}

// Witness is a concrete case: enough to re-run a monitor on it by hand.
type Witness struct {
	Src  []byte            `json:"src_b64,omitempty"`
	Text string            `json:"src_text,omitempty"`
	Ver  string            `json:"version,omitempty"`
	Cfg  map[string]string `json:"config,omitempty"`
	Hist []string          `json:"history,omitempty"`
}

func W(src []byte, ver string) Witness {
	return Witness{Src: src, Text: strconv.Quote(string(src)), Ver: ver}
}

func (w Witness) With(k, v string) Witness {
	m := map[string]string{}
	for a, b := range w.Cfg {
		m[a] = b
	}
	m[k] = v
	w.Cfg = m
	return w
}

// Violation as recorded by a monitor.
type Violation struct {
	Prop    string  `json:"property"`
	Sig     string  `json:"signature"`
	What    string  `json:"what"`
	Monitor string  `json:"monitor,omitempty"`
	W       Witness `json:"witness"`
	Tier    string  `json:"tier"`
	Seed    int64   `json:"seed"`
	Idx     int     `json:"case_index"`
}

// Check is one property's machinery.
type Check struct {
	ID          string
	Level       string // evidence level, normally "exploration"
	Rule        string // how cases are generated and what makes one non-trivial
	Assumptions []string
	// Plan returns the number of generated cases for the run.
	Plan func(p Params) int
	// Run executes generated case idx (0-based, after the witness cases).
	Run func(c *Ctx, idx int)
	// RunWitness executes the monitor on a witness from known-findings.jsonl.
	RunWitness func(c *Ctx, w Witness)
	// Exhaustive reports whether the run enumerated a finite space completely.
	Exhaustive func(p Params) bool
	// Race: workers run from the -race binary and race reports are violations.
	Race func(p Params) bool
	// Workers overrides the number of worker processes (0 = one per core).
	Workers func(p Params) int
	// CaseCPU is the per-case CPU-time limit in seconds (default 20).
	CaseCPU int
	// Finish lets a check post-process merged results (offline checkers).
	Finish func(p Params, r *Result) []Violation
	// Env adds environment variables for the workers.
	Env func(p Params) []string
	// MinNonTrivial: fewer distinct non-trivial cases than this is a machinery failure.
	MinNonTrivial int
	// Twins are hidden checks (registered under their own id) whose workers run as part of this
	// check, typically from the -race binary; their observations are merged into this check's.
	Twins []string
	// Hidden checks are not listed (twins).
	Hidden bool
	// Require inspects the merged observations; a non-empty answer is a machinery failure
	// (e.g. a hook that should have been reached never was).
	Require func(p Params, r *Result) string
}

var registry = map[string]*Check{}

func Register(c *Check) {
	if c.Level == "" {
		c.Level = "exploration"
	}
	registry[c.ID] = c
}

func Lookup(id string) *Check { return registry[id] }

func IDs() []string {
	var ids []string
	for k, c := range registry {
		if c.Hidden {
			continue
		}
		ids = append(ids, k)
	}
	sort.Strings(ids)
	return ids
}

// Result is what one worker (or the merge of all workers) observed.
type Result struct {
	Evaluations  int                         `json:"evaluations"`
	Hashes       []uint64                    `json:"hashes,omitempty"`
	Cover        map[string]map[string]int64 `json:"cover,omitempty"`
	Counters     map[string]int64            `json:"counters,omitempty"`
	MaxCounters  map[string]int64            `json:"max_counters,omitempty"`
	Samples      []interface{}               `json:"samples,omitempty"`
	Violations   []Violation                 `json:"violations,omitempty"`
	Inconclusive map[string]int64            `json:"inconclusive,omitempty"`
	Logs         []string                    `json:"logs,omitempty"`
	hashSet      map[uint64]struct{}
	sigSeen      map[string]int
	fallback     interface{} // literal case kept in case no monitor-chosen sample exists
}

func newResult() *Result {
	return &Result{
		Cover: map[string]map[string]int64{}, Counters: map[string]int64{}, MaxCounters: map[string]int64{},
		Inconclusive: map[string]int64{}, hashSet: map[uint64]struct{}{}, sigSeen: map[string]int{},
	}
}

// Ctx is handed to a monitor for one case.
type Ctx struct {
	P     Params
	Check *Check
	Idx   int
	res   *Result
	wk    *worker
}

// Violation records a refutation of the property. sig identifies the failing
// call site or construct (not the random input); what is a human description.
func (c *Ctx) Violation(sig, what string, w Witness) {
	c.res.sigSeen[sig]++
	if c.res.sigSeen[sig] > 3 { // keep a few witnesses per signature
		c.res.Counters["violations_dropped_duplicate_signature"]++
		return
	}
	if w.Text == "" && w.Src != nil {
		w.Text = strconv.Quote(string(w.Src))
	}
	if len(w.Text) > 4000 {
		w.Text = w.Text[:4000] + "…"
	}
	c.res.Violations = append(c.res.Violations, Violation{Prop: c.Check.ID, Sig: sig, What: what, W: w, Tier: c.P.Tier, Seed: c.P.Seed, Idx: c.Idx})
}

// NonTrivial counts the case as non-trivial; distinctness is by hash of the key parts.
func (c *Ctx) NonTrivial(key ...[]byte) {
	c.res.hashSet[Hash64(key...)] = struct{}{}
	if c.res.fallback == nil && len(c.res.Samples) == 0 && c.wk != nil && len(c.wk.last) > 0 {
		src := c.wk.last
		if len(src) > 400 {
			src = src[:400]
		}
		c.res.fallback = map[string]interface{}{"case_index": c.Idx, "input_handed_to_the_library": strconv.Quote(string(src)), "note": c.wk.lastNote}
	}
}

func (c *Ctx) Cover(table, key string) {
	m := c.res.Cover[table]
	if m == nil {
		m = map[string]int64{}
		c.res.Cover[table] = m
	}
	m[key]++
}

func (c *Ctx) Add(counter string, n int64) { c.res.Counters[counter] += n }

func (c *Ctx) Max(counter string, n int64) {
	if v, ok := c.res.MaxCounters[counter]; !ok || n > v {
		c.res.MaxCounters[counter] = n
	}
}

func (c *Ctx) Inconclusive(reason string) { c.res.Inconclusive[reason]++ }

// Sample keeps a few literal cases for the evidence file.
func (c *Ctx) Sample(s interface{}) {
	if len(c.res.Samples) < 4 {
		c.res.Samples = append(c.res.Samples, s)
	}
}

func (c *Ctx) WantSample() bool { return len(c.res.Samples) < 4 }

func (c *Ctx) Logf(format string, a ...interface{}) {
	if len(c.res.Logs) < 50 {
		c.res.Logs = append(c.res.Logs, fmt.Sprintf(format, a...))
	}
}

// Inflight records the input about to be handed to the library, so that a
// fatal error or a watchdog kill can be attributed to it.
func (c *Ctx) Inflight(src []byte, note string) {
	if c.wk != nil {
		c.wk.inflight(c.Idx, src, note)
	}
}

// ---------------------------------------------------------------------------------------------
// worker

type worker struct {
	last     []byte
	lastNote string
	f        *os.File
	curIdx   int64
	startCPU int64 // ns
	limitNS  int64
	mu       sync.Mutex
}

type inflightRec struct {
	Idx  int    `json:"idx"`
	Note string `json:"note"`
	Src  []byte `json:"src"`
}

func (w *worker) inflight(idx int, src []byte, note string) {
	if src != nil {
		w.last, w.lastNote = src, note
	}
	b, _ := json.Marshal(inflightRec{idx, note, src})
	w.mu.Lock()
	w.f.WriteAt(b, 0)
	w.f.Truncate(int64(len(b)))
	w.mu.Unlock()
}

func cpuNS() int64 {
	var ru syscall.Rusage
	syscall.Getrusage(syscall.RUSAGE_SELF, &ru)
	return ru.Utime.Nano() + ru.Stime.Nano()
}

func (w *worker) watchdog() {
	for {
		time.Sleep(250 * time.Millisecond)
		start := atomic.LoadInt64(&w.startCPU)
		if start == 0 {
			continue
		}
		if cpuNS()-start > w.limitNS {
			buf := make([]byte, 1<<20)
			n := runtime.Stack(buf, true)
			fmt.Fprintf(os.Stderr, "VERIF-WATCHDOG: case %d used more than %ds CPU\n%s\n", atomic.LoadInt64(&w.curIdx), w.limitNS/1e9, buf[:n])
			os.Exit(3)
		}
	}
}

// ExitWorkerHarness is the exit code of a worker whose own machinery failed. It is deliberately not 2:
// the Go runtime exits with 2 on an unrecovered panic, a fatal error ("concurrent map writes") or a
// fatal signal, and those are deaths of the code under test — attributed to the in-flight case.
const ExitWorkerHarness = 4

// Auxiliary functions: a monitor may need a result computed by a FRESH process (nothing parsed, printed or
// cached before). `vcheck -aux name` reads stdin, applies the function and writes the result to stdout.
var auxFuncs = map[string]func([]byte) []byte{}

func RegisterAux(name string, f func([]byte) []byte) { auxFuncs[name] = f }

func RunAux(name string) int {
	f := auxFuncs[name]
	if f == nil {
		fmt.Fprintln(os.Stderr, "unknown aux function", name)
		return ExitWorkerHarness
	}
	in, err := io.ReadAll(os.Stdin)
	if err != nil {
		return ExitWorkerHarness
	}
	os.Stdout.Write(f(in))
	return 0
}

// FreshProcess runs an auxiliary function in a new process of this binary.
func FreshProcess(name string, in []byte) ([]byte, error) {
	cmd := exec.Command(self(), "-aux", name)
	cmd.Stdin = bytes.NewReader(in)
	cmd.Env = append(os.Environ(), "VERIF_CHILD=1")
	return cmd.Output()
}

// HarnessPanic marks a panic raised by the harness itself (machinery failure).
type HarnessPanic struct{ Msg string }

func Fail(format string, a ...interface{}) { panic(HarnessPanic{fmt.Sprintf(format, a...)}) }

// RunWorker executes the cases of one shard and writes the observations to out.
func RunWorker(id string, p Params, shard, of, from, only int, out string) int {
	ck := Lookup(id)
	if ck == nil {
		fmt.Fprintln(os.Stderr, "unknown property", id)
		return ExitWorkerHarness
	}
	wits := Witnesses(id)
	n := planCapped(ck, p)
	total := len(wits) + n
	res := newResult()
	f, err := os.Create(out + ".inflight")
	if err != nil {
		fmt.Fprintln(os.Stderr, err)
		return ExitWorkerHarness
	}
	limit := ck.CaseCPU
	if limit == 0 {
		limit = 20
	}
	if s := os.Getenv("VERIF_CASE_CPU"); s != "" {
		if v, err := strconv.Atoi(s); err == nil {
			limit = v
		}
	}
	if only >= 0 {
		// the confirmation run of a watchdog verdict: the case alone gets five times the budget — an endless loop
		// exceeds any budget, a case that is merely slow on a loaded machine (CPU time in a VM includes contention)
		// finishes and makes the verdict inconclusive; super-linear cost is C01's scaling monitor's business
		limit *= 5
	}
	wk := &worker{f: f, limitNS: int64(limit) * 1e9}
	go wk.watchdog()
	flush := func() {
		if len(res.Samples) == 0 && res.fallback != nil {
			res.Samples = append(res.Samples, res.fallback)
		}
		res.Hashes = res.Hashes[:0]
		for h := range res.hashSet {
			res.Hashes = append(res.Hashes, h)
		}
		b, _ := json.Marshal(res)
		os.WriteFile(out+".tmp", b, 0o644)
		os.Rename(out+".tmp", out)
	}
	code := 0
	lastFlush, flushedViolations := time.Now(), 0
	func() {
		defer func() {
			if r := recover(); r != nil {
				fmt.Fprintf(os.Stderr, "VERIF-HARNESS-PANIC: case %d: %v\n%s\n", atomic.LoadInt64(&wk.curIdx), r, debug.Stack())
				code = ExitWorkerHarness
			}
		}()
		for idx := 0; idx < total; idx++ {
			if only >= 0 {
				if idx != only {
					continue
				}
			} else if idx%of != shard || idx < from {
				continue
			}
			c := &Ctx{P: p, Check: ck, Idx: idx, res: res, wk: wk}
			atomic.StoreInt64(&wk.curIdx, int64(idx))
			wk.inflight(idx, nil, "start")
			atomic.StoreInt64(&wk.startCPU, cpuNS()|1)
			if idx < len(wits) {
				if ck.RunWitness != nil {
					ck.RunWitness(c, wits[idx].Witness)
				}
			} else {
				ck.Run(c, idx-len(wits))
			}
			atomic.StoreInt64(&wk.startCPU, 0)
			res.Evaluations++
			// what has been observed so far survives the death of this worker (watchdog, runtime crash): the result
			// file is rewritten after every new violation and every few seconds (cadence only, no verdict depends on it)
			if len(res.Violations) != flushedViolations || time.Since(lastFlush) > 5*time.Second {
				flush()
				lastFlush, flushedViolations = time.Now(), len(res.Violations)
			}
		}
	}()
	flush()
	return code
}

// planCapped: development aid — VERIF_MAXCASES caps the number of generated cases.
func planCapped(ck *Check, p Params) int {
	n := ck.Plan(p)
	if s := os.Getenv("VERIF_MAXCASES"); s != "" {
		if v, err := strconv.Atoi(s); err == nil && v >= 0 && v < n {
			return v
		}
	}
	return n
}

// ---------------------------------------------------------------------------------------------
// known findings

type Finding struct {
	Property  string  `json:"property"`
	ID        string  `json:"id"`
	Status    string  `json:"status"` // known | fixed
	Commit    string  `json:"commit,omitempty"`
	Signature string  `json:"signature"`
	SigRegex  string  `json:"signature_regex,omitempty"`
	What      string  `json:"what"`
	Witness   Witness `json:"witness"`
	re        *regexp.Regexp
}

// RepoDir is the repository the harness was built against (/repo unless VERIF_REPO says otherwise).
func RepoDir() string {
	if d := os.Getenv("VERIF_REPO"); d != "" {
		return d
	}
	return "/repo"
}

// dirOr returns the directory named by env, else the default below VerifDir.
func dirOr(env, def string) string {
	if d := os.Getenv(env); d != "" {
		return d
	}
	return filepath.Join(VerifDir, def)
}

// WorkDir, BinDir: scratch and binary directories of this run.
func WorkDir() string { return dirOr("VERIF_WORK_DIR", ".work") }
func BinDir() string  { return dirOr("VERIF_BIN_DIR", ".bin") }

var (
	VerifDir     = "/verif"
	findingsOnce sync.Once
	findings     []Finding
)

func loadFindings() {
	findingsOnce.Do(func() {
		b, err := os.ReadFile(filepath.Join(VerifDir, "known-findings.jsonl"))
		if err != nil {
			return
		}
		for ln, line := range strings.Split(string(b), "\n") {
			line = strings.TrimSpace(line)
			if line == "" || strings.HasPrefix(line, "#") {
				continue
			}
			var f Finding
			if err := json.Unmarshal([]byte(line), &f); err != nil {
				fmt.Fprintf(os.Stderr, "known-findings.jsonl:%d: %v\n", ln+1, err)
				os.Exit(2)
			}
			if f.Witness.Src == nil && f.Witness.Text != "" {
				if s, err := strconv.Unquote(f.Witness.Text); err == nil {
					f.Witness.Src = []byte(s)
				} else {
					fmt.Fprintf(os.Stderr, "known-findings.jsonl:%d: bad src_text: %v\n", ln+1, err)
					os.Exit(2)
				}
			}
			if f.SigRegex != "" {
				f.re = regexp.MustCompile(f.SigRegex)
			}
			findings = append(findings, f)
		}
	})
}

// Witnesses returns the findings (known and fixed) of a property that carry a witness.
func Witnesses(id string) []Finding {
	loadFindings()
	var out []Finding
	for _, f := range findings {
		if f.Property == id && (f.Witness.Src != nil || len(f.Witness.Cfg) > 0) {
			out = append(out, f)
		}
	}
	return out
}

func (f *Finding) matches(sig string) bool {
	if f.Status != "known" {
		return false
	}
	if f.re != nil {
		return f.re.MatchString(sig)
	}
	return f.Signature == sig
}

// ---------------------------------------------------------------------------------------------
// orchestrator

type Evidence struct {
	PropertyID  string                 `json:"property_id"`
	Tier        string                 `json:"tier"`
	Seed        int64                  `json:"seed"`
	Level       string                 `json:"level"`
	Coverage    map[string]interface{} `json:"coverage"`
	Assumptions []string               `json:"assumptions,omitempty"`
	WallS       float64                `json:"wall_s"`
	Violations  int                    `json:"violations"`
	Repo        map[string]string      `json:"repo,omitempty"`
}

func self() string {
	p, err := os.Executable()
	if err != nil {
		return os.Args[0]
	}
	return p
}

func gitInfo() map[string]string {
	m := map[string]string{}
	if out, err := exec.Command("git", "-C", RepoDir(), "rev-parse", "HEAD").Output(); err == nil {
		m["head"] = strings.TrimSpace(string(out))
	}
	if out, err := exec.Command("git", "-C", RepoDir(), "diff", "HEAD").Output(); err == nil {
		m["worktree_diff_hash"] = fmt.Sprintf("%016x", Hash64(out))
		m["worktree_dirty"] = strconv.FormatBool(len(out) > 0)
	}
	return m
}

var raceRe = regexp.MustCompile(`(?s)WARNING: DATA RACE.*?==================`)
var frameRe = regexp.MustCompile(`\n  ([^\s(]+)\(`)

// raceSignatures de-duplicates race reports by the first repo frame of each of the two stacks.
func raceSignatures(logs []string) map[string]string {
	out := map[string]string{}
	for _, lg := range logs {
		for _, blk := range raceRe.FindAllString(lg, -1) {
			parts := strings.SplitN(blk, "Previous ", 2)
			var fr []string
			for _, p := range parts {
				f := "?"
				for _, m := range frameRe.FindAllStringSubmatch(p, -1) {
					if strings.Contains(m[1], "z7zmey/php-parser") {
						f = m[1]
						break
					}
				}
				fr = append(fr, f)
			}
			sort.Strings(fr)
			sig := "race|" + strings.Join(fr, "|")
			if _, ok := out[sig]; !ok {
				out[sig] = blk
			}
		}
	}
	return out
}

// runWorkers runs all workers of one check (or twin) and merges their observations.
func runWorkers(ck *Check, p Params, work string) (merged *Result, harnessFail bool, nWitness, total, nw int, race bool) {
	id := ck.ID
	os.MkdirAll(work, 0o755)
	wits := Witnesses(id)
	nWitness = len(wits)
	total = len(wits) + planCapped(ck, p)
	nw = runtime.NumCPU()
	if ck.Workers != nil {
		if v := ck.Workers(p); v > 0 {
			nw = v
		}
	}
	if s := os.Getenv("VERIF_WORKERS"); s != "" {
		if v, err := strconv.Atoi(s); err == nil && v > 0 {
			nw = v
		}
	}
	if nw > total {
		nw = total
	}
	if nw < 1 {
		nw = 1
	}
	bin := self()
	race = ck.Race != nil && ck.Race(p)
	if race {
		bin = filepath.Join(filepath.Dir(bin), "vcheck-race")
		if _, err := os.Stat(bin); err != nil {
			fmt.Fprintln(os.Stderr, "race binary missing:", bin)
			return newResult(), true, nWitness, total, nw, race
		}
	}

	merged = newResult()
	var mu sync.Mutex
	var wg sync.WaitGroup
	var raceLogs []string
	harnessFail = false
	runOne := func(shard, from, only int, out string) (int, string) {
		args := []string{"-worker", "-prop", id, "-tier", p.Tier, "-seed", strconv.FormatInt(p.Seed, 10),
			"-shard", strconv.Itoa(shard), "-of", strconv.Itoa(nw), "-from", strconv.Itoa(from), "-only", strconv.Itoa(only), "-out", out}
		cmd := exec.Command(bin, args...)
		errf, _ := os.Create(out + ".stderr")
		outf, _ := os.Create(out + ".stdout")
		cmd.Stdout, cmd.Stderr = outf, errf
		cmd.Env = append(os.Environ(), "VERIF_CHILD=1")
		if race {
			cmd.Env = append(cmd.Env, "GORACE=halt_on_error=0 exitcode=0 log_path="+out+".race")
		}
		if ck.Env != nil {
			cmd.Env = append(cmd.Env, ck.Env(p)...)
		}
		err := cmd.Run()
		errf.Close()
		outf.Close()
		code := 0
		if err != nil {
			if ee, ok := err.(*exec.ExitError); ok {
				code = ee.ExitCode()
				if code < 0 {
					code = 128
				}
			} else {
				code = ExitWorkerHarness
			}
		}
		tail := ""
		if b, err := os.ReadFile(out + ".stderr"); err == nil {
			if len(b) > 6000 {
				b = b[:6000]
			}
			tail = string(b)
		}
		return code, tail
	}

	absorb := func(out string) {
		b, err := os.ReadFile(out)
		if err != nil {
			return
		}
		var r Result
		if json.Unmarshal(b, &r) != nil {
			return
		}
		mu.Lock()
		defer mu.Unlock()
		merged.Evaluations += r.Evaluations
		for _, h := range r.Hashes {
			merged.hashSet[h] = struct{}{}
		}
		for t, m := range r.Cover {
			mm := merged.Cover[t]
			if mm == nil {
				mm = map[string]int64{}
				merged.Cover[t] = mm
			}
			for k, v := range m {
				mm[k] += v
			}
		}
		for k, v := range r.Counters {
			merged.Counters[k] += v
		}
		for k, v := range r.MaxCounters {
			if o, ok := merged.MaxCounters[k]; !ok || v > o {
				merged.MaxCounters[k] = v
			}
		}
		for k, v := range r.Inconclusive {
			merged.Inconclusive[k] += v
		}
		for _, s := range r.Samples {
			if len(merged.Samples) < 6 {
				merged.Samples = append(merged.Samples, s)
			}
		}
		merged.Violations = append(merged.Violations, r.Violations...)
		merged.Logs = append(merged.Logs, r.Logs...)
		os.Remove(out)
	}

	for k := 0; k < nw; k++ {
		wg.Add(1)
		go func(shard int) {
			defer wg.Done()
			from := 0
			for attempt := 0; attempt < 200; attempt++ {
				out := filepath.Join(work, fmt.Sprintf("w%02d.%d.json", shard, attempt))
				code, tail := runOne(shard, from, -1, out)
				absorb(out)
				if race {
					if ms, _ := filepath.Glob(out + ".race*"); len(ms) > 0 {
						for _, m := range ms {
							// a racy tree can write gigabytes of reports: the first 2 MB of a log hold more distinct
							// reports than are ever shown, and the signatures are de-duplicated anyway
							if f, err := os.Open(m); err == nil {
								b, _ := io.ReadAll(io.LimitReader(f, 2<<20))
								f.Close()
								os.Remove(m)
								mu.Lock()
								if len(raceLogs) < 256 {
									raceLogs = append(raceLogs, string(b))
								}
								mu.Unlock()
							}
						}
					}
				}
				if code == 0 {
					return
				}
				if code == ExitWorkerHarness || (code == 2 && strings.Contains(tail, "VERIF-HARNESS-PANIC")) {
					mu.Lock()
					harnessFail = true
					fmt.Fprintf(os.Stderr, "worker %d: harness failure:\n%s\n", shard, tail)
					mu.Unlock()
					return
				}
				// the worker died: attribute to the in-flight case
				var rec inflightRec
				if b, err := os.ReadFile(out + ".inflight"); err == nil {
					json.Unmarshal(b, &rec)
				}
				v := Violation{Prop: id, Tier: p.Tier, Seed: p.Seed, Idx: rec.Idx, W: Witness{Src: rec.Src, Text: strconv.Quote(string(rec.Src)), Cfg: map[string]string{"note": rec.Note}}}
				if code == 3 {
					// watchdog: confirm in isolation
					c2, _ := runOne(shard, 0, rec.Idx, out+".confirm")
					absorb(out + ".confirm")
					if c2 == 3 {
						v.Sig = "hang|" + hangSite(tail)
						v.What = "a single case exceeded the CPU-time limit, and five times that limit when run alone: " + firstLines(tail, 1)
						mu.Lock()
						merged.Violations = append(merged.Violations, v)
						mu.Unlock()
					} else {
						mu.Lock()
						merged.Inconclusive["watchdog fired, but the case finished within five times the CPU limit when run alone"]++
						mu.Unlock()
					}
				} else {
					v.Sig = "fatal|" + fatalSite(tail)
					v.What = fmt.Sprintf("worker process died (exit %d) while running this case: %s", code, firstLines(tail, 2))
					mu.Lock()
					merged.Violations = append(merged.Violations, v)
					mu.Unlock()
				}
				from = rec.Idx + 1
			}
		}(k)
	}
	wg.Wait()
	if race {
		for sig, blk := range raceSignatures(raceLogs) {
			merged.Violations = append(merged.Violations, Violation{Prop: id, Sig: sig, What: "Go race detector report:\n" + blk, Tier: p.Tier, Seed: p.Seed, Idx: -1})
		}
		merged.Counters["race_log_files"] += int64(len(raceLogs))
		merged.Counters["race_reports_distinct"] += int64(len(raceSignatures(raceLogs)))
	}
	if ck.Finish != nil {
		merged.Violations = append(merged.Violations, ck.Finish(p, merged)...)
	}
	return merged, harnessFail, nWitness, total, nw, race
}

// Orchestrate runs a whole check and returns the process exit code.
func Orchestrate(id string, p Params) int {
	ck := Lookup(id)
	if ck == nil {
		fmt.Fprintln(os.Stderr, "unknown property", id)
		return 2
	}
	start := time.Now()
	work := filepath.Join(WorkDir(), id)
	os.RemoveAll(work)
	merged, harnessFail, nWit, total, nw, race := runWorkers(ck, p, work)
	wits := Witnesses(id)
	_ = nWit
	twinInfo := map[string]interface{}{}
	for _, tid := range ck.Twins {
		tck := Lookup(tid)
		if tck == nil {
			fmt.Fprintln(os.Stderr, "unknown twin", tid)
			return 2
		}
		tm, tfail, _, ttotal, tnw, trace := runWorkers(tck, p, filepath.Join(work, "twin-"+tid))
		if tfail || tm.Evaluations == 0 {
			harnessFail = true
			fmt.Fprintf(os.Stderr, "twin %s observed nothing or failed\n", tid)
		}
		for i := range tm.Violations {
			tm.Violations[i].Prop = id
			tm.Violations[i].Monitor = "twin:" + tid
		}
		merged.Violations = append(merged.Violations, tm.Violations...)
		merged.Evaluations += tm.Evaluations
		for h := range tm.hashSet {
			merged.hashSet[h] = struct{}{}
		}
		for k, v := range tm.Inconclusive {
			merged.Inconclusive["twin "+tid+": "+k] += v
		}
		for _, s := range tm.Samples {
			if len(merged.Samples) < 8 {
				merged.Samples = append(merged.Samples, s)
			}
		}
		twinInfo[tid] = map[string]interface{}{"cases": ttotal, "evaluations": tm.Evaluations, "workers": tnw, "race_detector": trace, "counters": tm.Counters, "max_counters": tm.MaxCounters, "tables": summarizeCover(tm.Cover), "rule": tck.Rule, "distinct_nontrivial": len(tm.hashSet)}
	}
	// classify violations (a harness failure elsewhere in the run does not hide a witnessed violation:
	// the exit code is 1 when an unknown violation has a witness, 2 when only the harness failed)
	loadFindings()
	knownSeen := map[string]int{}
	var unknown []Violation
	for _, v := range merged.Violations {
		matched := false
		for i := range findings {
			f := &findings[i]
			if f.Property == id && f.matches(v.Sig) {
				knownSeen[f.ID]++
				matched = true
				break
			}
		}
		if !matched {
			unknown = append(unknown, v)
		}
	}
	var knownRepro, knownStale []string
	for i := range findings {
		f := &findings[i]
		if f.Property != id || f.Status != "known" {
			continue
		}
		if knownSeen[f.ID] > 0 {
			knownRepro = append(knownRepro, f.ID)
			fmt.Printf("KNOWN-FINDING: property=%s %s [%s, observed %d×]\n", id, f.What, f.ID, knownSeen[f.ID])
		} else {
			knownStale = append(knownStale, f.ID)
		}
	}
	// one replay file per distinct unknown signature
	sort.SliceStable(unknown, func(i, j int) bool { return unknown[i].Sig < unknown[j].Sig })
	seenSig := map[string]bool{}
	var lines []string
	for _, v := range unknown {
		if seenSig[v.Sig] {
			continue
		}
		seenSig[v.Sig] = true
		dir := filepath.Join(dirOr("VERIF_REPLAY_DIR", "replay"), id)
		os.MkdirAll(dir, 0o755)
		path := filepath.Join(dir, fmt.Sprintf("%016x.json", Hash64([]byte(v.Sig), v.W.Src)))
		b, _ := json.MarshalIndent(v, "", " ")
		os.WriteFile(path, b, 0o644)
		lines = append(lines, fmt.Sprintf("VIOLATION property=%s replay=%s", id, path))
		fmt.Fprintf(os.Stderr, "--- %s\n    signature: %s\n    what: %s\n    input: %s cfg=%v version=%s\n", path, v.Sig, v.What, trunc(v.W.Text, 300), v.W.Cfg, v.W.Ver)
	}

	distinct := len(merged.hashSet)
	cov := map[string]interface{}{
		"evaluations":                  merged.Evaluations,
		"distinct_nontrivial":          distinct,
		"rule":                         ck.Rule,
		"samples":                      merged.Samples,
		"exhaustive":                   ck.Exhaustive != nil && ck.Exhaustive(p),
		"witness_cases":                len(wits),
		"generated_cases":              total - len(wits),
		"workers":                      nw,
		"counters":                     merged.Counters,
		"max_counters":                 merged.MaxCounters,
		"inconclusive":                 merged.Inconclusive,
		"tables":                       summarizeCover(merged.Cover),
		"known_findings_reproduced":    knownRepro,
		"known_findings_not_observed":  knownStale,
		"unknown_violation_signatures": keys(seenSig),
		"race_detector":                race,
		"twins":                        twinInfo,
		"harness_failure":              harnessFail,
	}
	if len(merged.Logs) > 0 {
		if len(merged.Logs) > 40 {
			merged.Logs = merged.Logs[:40]
		}
		cov["notes"] = merged.Logs
	}
	ev := Evidence{PropertyID: id, Tier: p.Tier, Seed: p.Seed, Level: ck.Level, Coverage: cov, Assumptions: ck.Assumptions,
		WallS: time.Since(start).Seconds(), Violations: len(seenSig), Repo: gitInfo()}
	b, _ := json.MarshalIndent(ev, "", " ")
	evDir := dirOr("VERIF_EVIDENCE_DIR", "evidence")
	os.MkdirAll(evDir, 0o755)
	os.WriteFile(filepath.Join(evDir, id+".json"), b, 0o644)

	fmt.Printf("%s tier=%s seed=%d: %d cases (%d witness), %d distinct non-trivial, %d unknown violation signature(s), %d known finding(s) reproduced, inconclusive=%v, %.1fs\n",
		id, p.Tier, p.Seed, merged.Evaluations, len(wits), distinct, len(seenSig), len(knownRepro), merged.Inconclusive, time.Since(start).Seconds())
	for _, l := range lines {
		fmt.Println(l)
	}
	if len(lines) > 0 {
		if harnessFail {
			fmt.Println("HARNESS-FAILURE property=" + id + " (in addition to the violations above)")
		}
		return 1
	}
	if harnessFail {
		fmt.Println("HARNESS-FAILURE property=" + id)
		return 2
	}
	min := ck.MinNonTrivial
	if min < 2 {
		min = 2
	}
	if ck.Require != nil {
		if msg := ck.Require(p, merged); msg != "" {
			fmt.Printf("HARNESS-FAILURE property=%s: %s\n", id, msg)
			return 2
		}
	}
	if merged.Evaluations == 0 || distinct < min {
		fmt.Printf("HARNESS-FAILURE property=%s: the monitors observed too little (evaluations=%d distinct_nontrivial=%d, need %d)\n", id, merged.Evaluations, distinct, min)
		return 2
	}
	os.RemoveAll(work)
	return 0
}

func keys(m map[string]bool) []string {
	out := []string{}
	for k := range m {
		out = append(out, k)
	}
	sort.Strings(out)
	return out
}

func trunc(s string, n int) string {
	if len(s) > n {
		return s[:n] + "…"
	}
	return s
}

func firstLines(s string, n int) string {
	ls := strings.Split(strings.TrimSpace(s), "\n")
	if len(ls) > n {
		ls = ls[:n]
	}
	return strings.Join(ls, " / ")
}

var numRe = regexp.MustCompile(`[0-9]+`)

func fatalSite(stderr string) string {
	for _, l := range strings.Split(stderr, "\n") {
		if strings.HasPrefix(l, "fatal error:") || strings.HasPrefix(l, "panic:") || strings.HasPrefix(l, "runtime:") || strings.HasPrefix(l, "SIG") || strings.HasPrefix(l, "unexpected fault") {
			return numRe.ReplaceAllString(l, "N")
		}
	}
	return "unknown"
}

func hangSite(stderr string) string {
	// first repo frame in the goroutine dump
	for _, l := range strings.Split(stderr, "\n") {
		if strings.Contains(l, "z7zmey/php-parser") && strings.Contains(l, "(") && !strings.HasPrefix(l, "\t") {
			return strings.SplitN(l, "(", 2)[0]
		}
	}
	return "unknown"
}

// summarizeCover keeps small tables literally and large ones as counts plus a few keys.
func summarizeCover(c map[string]map[string]int64) map[string]interface{} {
	out := map[string]interface{}{}
	for t, m := range c {
		if len(m) <= 400 {
			out[t] = m
			continue
		}
		ks := make([]string, 0, len(m))
		for k := range m {
			ks = append(ks, k)
		}
		sort.Strings(ks)
		out[t] = map[string]interface{}{"distinct_keys": len(m), "first_keys": ks[:40]}
	}
	return out
}

// Replay re-executes the case of a replay file and reports whether the signature reproduces.
func Replay(id, path string) int {
	b, err := os.ReadFile(path)
	if err != nil {
		fmt.Fprintln(os.Stderr, err)
		return 2
	}
	var v Violation
	if err := json.Unmarshal(b, &v); err != nil {
		fmt.Fprintln(os.Stderr, err)
		return 2
	}
	if v.Idx < 0 {
		fmt.Println("this violation (race report / offline checker) has no single case to replay; re-run the check")
		return 2
	}
	out := filepath.Join(os.TempDir(), fmt.Sprintf("vreplay-%d.json", os.Getpid()))
	defer os.Remove(out)
	defer os.Remove(out + ".inflight")
	code := RunWorker(id, Params{Tier: v.Tier, Seed: v.Seed}, 0, 1, 0, v.Idx, out)
	rb, _ := os.ReadFile(out)
	var r Result
	json.Unmarshal(rb, &r)
	found := false
	for _, x := range r.Violations {
		fmt.Printf("replayed: signature=%s\n   what: %s\n   input: %s\n", x.Sig, x.What, trunc(x.W.Text, 600))
		if x.Sig == v.Sig {
			found = true
		}
	}
	if found {
		fmt.Printf("VIOLATION property=%s replay=%s\n", id, path)
		return 1
	}
	if code != 0 {
		return code
	}
	fmt.Println("not reproduced")
	return 0
}

var _ = bytes.Equal

// Res exposes the result record of the running worker (for bulk coverage updates).
func (c *Ctx) Res() *Result { return c.res }
