package gen

import (
	"bytes"
	"strings"
	"sync"

	"verif/harness/core"
)

// NewlineVariant rewrites the line terminators of src: every LF / CRLF / lone CR is
// replaced by a terminator chosen per mode (0: all LF, 1: all CRLF, 2: all CR, 3: PRNG mix of the
// three, 4: PRNG mix of LF and CRLF). Note: the scanner rejects a lone CR between PHP tokens
// (known finding C08-lone-cr), so modes 2 and 3 mostly yield trees with errors.
func NewlineVariant(r *core.Rand, src []byte, mode int) []byte {
	var out []byte
	for i := 0; i < len(src); i++ {
		b := src[i]
		if b != '\n' && b != '\r' {
			out = append(out, b)
			continue
		}
		if b == '\r' && i+1 < len(src) && src[i+1] == '\n' {
			i++
		}
		m := mode
		if m == 3 {
			m = r.Intn(3)
		} else if m == 4 {
			m = r.Intn(2)
		}
		switch m {
		case 0:
			out = append(out, '\n')
		case 1:
			out = append(out, '\r', '\n')
		default:
			out = append(out, '\r')
		}
	}
	return out
}

var (
	bodiesOnce sync.Once
	bodies     []string
)

// Bodies returns corpus snippets reduced to their statement text (open tag removed),
// restricted to those that stay in PHP mode, so that they can be concatenated.
func Bodies() []string {
	bodiesOnce.Do(func() {
		for _, s := range Corpus() {
			t := s.Src
			var body string
			switch {
			case strings.HasPrefix(t, "<?php") && len(t) > 5 && strings.ContainsRune(" \t\r\n", rune(t[5])):
				body = t[6:]
			case strings.HasPrefix(t, "<? ") || strings.HasPrefix(t, "<?\n"):
				body = t[3:]
			default:
				continue
			}
			low := strings.ToLower(body)
			if strings.Contains(low, "?>") || strings.Contains(low, "__halt_compiler") || strings.Contains(low, "<?") || len(strings.TrimSpace(body)) == 0 {
				continue
			}
			if s.Origin == "torture" {
				continue
			}
			bodies = append(bodies, body)
		}
	})
	return bodies
}

// Big concatenates PRNG-chosen statement bodies (filtered by ok, which the caller
// uses to keep only bodies that parse without error) until at least minBytes.
func Big(r *core.Rand, minBytes int, ok func(body string) bool) []byte {
	bs := Bodies()
	var sb bytes.Buffer
	sb.WriteString(r.Pick("<?php\n", "<?php ", "<?php\r\n", "<?\n"))
	for tries := 0; sb.Len() < minBytes && tries < 100000; tries++ {
		b := bs[r.Intn(len(bs))]
		if ok != nil && !ok(b) {
			continue
		}
		sb.WriteString(b)
		sb.WriteString(r.Pick("\n", " ", "\r\n", "\n\n", "\t", " /* sep */ ", "\r\n\t"))
	}
	return sb.Bytes()
}
