package gen

import (
	"bytes"

	"verif/harness/core"
)

// G4 — guaranteed breakers. Every valid PHP program is bracket-balanced at token level
// and cannot end in a binary operator, '=', '->', '::' or 'new'; no expression grammar
// allows the operator pair '* /'. The edits below therefore make a valid token sequence
// invalid by a counting argument, independent of any grammar folklore. Edits are only
// applied at free gaps in PHP mode outside strings (inside an interpolation a surplus '}' or ']' is string
// text, so the counting argument does not hold there), inline HTML and the halt-compiler tail.

var breakOps = map[string]bool{"+": true, "-": true, "*": true, "/": true, ".": true, "%": true, "=": true, "->": true, "::": true, "&&": true, "||": true, "==": true, "<": true, "?": true, "=>": true, "instanceof": true, "new": true, "&": true, "|": true, "^": true, "**": true, "+=": true, ".=": true, "??": true, "<=>": true, "and": true, "or": true, "xor": true}

func isBracket(s string) bool {
	switch s {
	case "(", ")", "[", "]", "{", "}":
		return true
	}
	return false
}

// freeIdx lists token indexes (> 0) whose gap is free.
func freeIdx(toks []Tok) []int {
	var out []int
	for i := 1; i < len(toks); i++ {
		if toks[i].Gap == GapFree && toks[i].S != "" && !toks[i].Str {
			out = append(out, i)
		}
	}
	return out
}

func insertAt(toks []Tok, i int, ins ...Tok) []Tok {
	out := make([]Tok, 0, len(toks)+len(ins))
	out = append(out, toks[:i]...)
	out = append(out, ins...)
	return append(out, toks[i:]...)
}

// Break applies one guaranteed-breaking edit; ok=false if the program offers no place for it.
func Break(r *core.Rand, toks []Tok) (out []Tok, edit string, ok bool) {
	free := freeIdx(toks)
	if len(free) == 0 {
		return nil, "", false
	}
	for tries := 0; tries < 20; tries++ {
		switch r.Intn(7) {
		case 0: // unmatched closer
			b := r.Pick(")", "]", "}")
			return insertAt(toks, free[r.Intn(len(free))], Tok{S: b}), "insert-unmatched-" + b, true
		case 1: // unmatched opener
			b := r.Pick("(", "[", "{")
			return insertAt(toks, free[r.Intn(len(free))], Tok{S: b}), "insert-unmatched-" + b, true
		case 2: // delete one bracket of a pair
			var br []int
			for _, i := range free {
				if isBracket(toks[i].S) {
					br = append(br, i)
				}
			}
			if len(br) == 0 {
				continue
			}
			i := br[r.Intn(len(br))]
			out := append(append([]Tok{}, toks[:i]...), toks[i+1:]...)
			return out, "delete-" + toks[i].S, true
		case 3, 4: // truncate right after an operator
			var ops []int
			for _, i := range free {
				if breakOps[lower(toks[i].S)] {
					ops = append(ops, i)
				}
			}
			if len(ops) == 0 {
				continue
			}
			i := ops[r.Intn(len(ops))]
			return append([]Tok{}, toks[:i+1]...), "truncate-after-" + lower(toks[i].S), true
		case 5: // a stray quote at the very end of the code opens a string that is never closed
			last := toks[len(toks)-1]
			if last.Gap == GapNone || last.Str || last.S == "" {
				continue
			}
			q := r.Pick("'", "\"", "`")
			return append(append([]Tok{}, toks...), Tok{S: q}), "append-stray-quote-" + q, true
		default: // two adjacent binary operators
			return insertAt(toks, free[r.Intn(len(free))], Tok{S: "*"}, Tok{S: "/"}), "insert-operator-pair", true
		}
	}
	return nil, "", false
}

func lower(s string) string { return string(bytes.ToLower([]byte(s))) }

// Benign malformed statements (C07): they cannot extend the preceding statement nor
// start a valid one, and end in ';' so that the parser can resynchronise.
var Benign = [][]string{
	{"}", ";"}, // (only used at top level: inside a block it would close the block)
	{")", ";"}, {"]", ";"}, {"=", "1", ";"}, {"=>", ";"}, {"*", ";"}, {"$x", "=", ";"}, {"foo", "(", ";"}, {"$y", "->", ";"}, {"1", "+", ";"}, {",", ";"}, {"$z", "[", ";"}, {"?", ";"}, {":", ";"}, {"=", ";"}, {")", ")", ";"}, {"%", "3", ";"},
	// malformed statements that begin like a well-formed one: the error is met while a statement keyword and its
	// parenthesis are on the parser stack (brackets balanced: an unbalanced one is not benign inside a block; no
	// 'else', which would extend a preceding if)
	{"if", "(", "$c", ")", "foo", "bar", ";"}, {"while", "(", "$c", ")", "foo", "bar", ";"},
	{"for", "(", ";", ";", ")", "foo", "bar", ";"}, {"echo", "1", "2", ";"}, {"$x", "=", "new", ";"}, {"foreach", "(", "$c", "as", ")", "g", "(", ")", ";"},
}

// BenignOpen: malformed statements WITHOUT a ';' of their own (a forgotten semicolon). They are only placed as the
// last statement of a list that is closed by '}': a statement cannot reach beyond the closing brace of its block,
// so the error may cost this statement, but neither the block nor anything behind it.
var BenignOpen = [][]string{
	{"echo", "$x", "$y"}, {"$x", "=", "1", "$y"}, {"foo", "(", "$x", ")", "$y"}, {"return", "$x", "$y"}, {"$x", "->", "y", "$z"}, {"print", "1", "2"},
	{"$x", "->"}, {"$x", "->", "y", "->"}, {"$x", "::"}, {"$x", "="}, {"new"}, {"$x", "["}, {"foo", "("},
}

// StmtListKinds: kinds whose Stmts list is a statement list with an error production.
var StmtListKinds = map[string]bool{"Root": true, "StmtFunction": true, "ExprClosure": true, "StmtStmtList": true, "StmtCase": true, "StmtDefault": true, "StmtCatch": true, "StmtFinally": true, "StmtTry": true, "StmtNamespace": true}

// ListSite is one statement list of a generated program with the token index of each boundary.
type ListSite struct {
	Kind       string
	Boundaries []int // token index before which a statement may be inserted: before stmt 0..k-1 and after the last one
	NStmts     int
}

// ListSites enumerates the statement lists of a program and their boundaries as token indexes.
func ListSites(root *Node) []ListSite {
	var sites []ListSite
	pos := 0
	var rec func(n *Node)
	rec = func(n *Node) {
		var stmts []*Node
		isList := false
		if StmtListKinds[n.Kind] {
			for _, k := range n.Kids {
				if k.Role == "Stmts" && k.List {
					stmts = k.L
					isList = true
				}
			}
		}
		site := ListSite{Kind: n.Kind, NStmts: len(stmts)}
		si := 0
		lastEnd := -1
		for _, p := range n.Parts {
			switch v := p.(type) {
			case Tok:
				pos++
			case *Node:
				if v == nil {
					continue
				}
				isStmt := isList && si < len(stmts) && stmts[si] == v
				if isStmt {
					site.Boundaries = append(site.Boundaries, pos)
					si++
				}
				rec(v)
				if isStmt {
					lastEnd = pos
				}
			}
		}
		if isList && len(stmts) > 0 && si == len(stmts) {
			site.Boundaries = append(site.Boundaries, lastEnd)
			sites = append(sites, site)
		}
	}
	rec(root)
	return sites
}

// Mandatory operands (second family of guaranteed breakers): roles whose whole child subtree can be deleted
// from a valid program only at the price of a syntax error — the grammar of PHP <= 7.4 has no production in
// which the neighbours of that child may touch (a catch without its variable, "if ( )", "$a = ;", "new ;",
// "$a -> ;", "x ? y : ;", "foreach ($a as )", "const A = ;" ...). Operands of unary and binary operators are
// deliberately absent: "$a - $b - $c" without "$b" is "$a - - $c", which is valid.
var mandatoryRoles = map[string]bool{
	"StmtCatch.Var": true, "StmtForeach.Var": true, "StmtForeach.Expr": true, "StmtWhile.Cond": true, "StmtIf.Cond": true, "StmtElseIf.Cond": true,
	"StmtDo.Cond": true, "StmtSwitch.Cond": true, "ExprTernary.IfFalse": true, "ExprAssign.Expr": true, "ExprAssignReference.Expr": true,
	"StmtClass.Name": true, "StmtInterface.Name": true, "StmtTrait.Name": true, "StmtConstant.Expr": true, "ExprNew.Class": true, "ExprInstanceOf.Class": true,
	"ExprPropertyFetch.Prop": true, "ExprMethodCall.Method": true, "ExprStaticCall.Call": true, "ExprClassConstFetch.Const": true,
	"ExprStaticPropertyFetch.Prop": true, "StmtThrow.Expr": true, "StmtStaticVar.Expr": true, "StmtProperty.Expr": true, "StmtGoto.Label": true,
}

// lastOfList: separated lists that admit no trailing separator in PHP <= 7.4 — deleting the LAST element of a list
// of two or more leaves "x ," in front of the closer (parameter and closure-use lists got their trailing comma in
// PHP 8.0; call arguments, unset and isset in 7.3, so they are not in the list; arrays and list() always had it).
var lastOfList = map[string]bool{
	"StmtFunction.Params": true, "ExprClosure.Params": true, "StmtClassMethod.Params": true, "ExprArrowFunction.Params": true, "ExprClosure.Uses": true,
	"StmtClass.Implements": true, "StmtInterface.Extends": true, "StmtGlobal.Vars": true, "StmtStatic.Vars": true, "StmtEcho.Exprs": true,
	"StmtConstList.Consts": true, "StmtClassConstList.Consts": true, "StmtPropertyList.Props": true, "StmtTraitUse.Traits": true,
	"StmtFor.Init": true, "StmtFor.Cond": true, "StmtFor.Loop": true, "StmtDeclare.Consts": true, "StmtCatch.Types": true,
}

// MandSpan is one deletable mandatory operand: the tokens [From, To) of the program's token sequence.
type MandSpan struct {
	Rule     string
	From, To int
}

// MandatorySpans lists the mandatory operands of a program that lie in PHP mode outside strings.
func MandatorySpans(root *Node) []MandSpan {
	toks := root.Tokens()
	var out []MandSpan
	pos := 0
	var rec func(n *Node)
	rec = func(n *Node) {
		role := map[*Node]string{}
		lastIn := map[*Node]string{}
		for _, k := range n.Kids {
			if !k.List && k.N != nil {
				role[k.N] = k.Role
			}
			if k.List && len(k.L) >= 2 && lastOfList[n.Kind+"."+k.Role] {
				lastIn[k.L[len(k.L)-1]] = k.Role
			}
		}
		for _, p := range n.Parts {
			switch v := p.(type) {
			case Tok:
				pos++
			case *Node:
				if v == nil {
					continue
				}
				from := pos
				rec(v)
				if lr, isLast := lastIn[v]; isLast && pos > from && from > 0 && pos < len(toks) {
					ok := true
					for i := from - 1; i <= pos && ok; i++ {
						if toks[i].Str {
							ok = false
						}
					}
					if ok {
						out = append(out, MandSpan{n.Kind + "." + lr + "[last]", from, pos})
					}
					continue
				}
				r, ok := role[v]
				if !ok || pos == from {
					continue
				}
				rule := n.Kind + "." + r
				if !mandatoryRoles[rule] && !(r == "Expr" && len(n.Kind) > 10 && n.Kind[:10] == "ExprAssign" && n.Kind != "ExprAssignReference" && mandatoryRoles["ExprAssign.Expr"]) {
					continue
				}
				clean := from > 0 && pos < len(toks)
				for i := from; i < pos && clean; i++ {
					if toks[i].Str {
						clean = false
					}
				}
				// the neighbours must be ordinary PHP-mode tokens as well
				if clean && (toks[from-1].Str || toks[pos].Str) {
					clean = false
				}
				// a member name may only go where a closer or separator follows: "$a -> xor (..)", "A :: xor (..)" and
				// "$a -> {..}" are valid (reserved words are member names, a brace expression is one)
				if clean && (r == "Prop" || r == "Method" || r == "Call" || r == "Const") {
					switch toks[pos].S {
					case ";", ")", "]", ",", "}":
					default:
						clean = false
					}
				}
				if clean {
					out = append(out, MandSpan{rule, from, pos})
				}
			}
		}
	}
	rec(root)
	if pos != len(toks) {
		return nil // the Parts walk and Tokens() disagree: no claim
	}
	return out
}
