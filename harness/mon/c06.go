package mon

import (
	"fmt"
	"strings"

	"verif/harness/core"
	"verif/harness/gen"
	"verif/harness/obs"

	"github.com/z7zmey/php-parser/pkg/ast"
	"github.com/z7zmey/php-parser/pkg/conf"
	"github.com/z7zmey/php-parser/pkg/errors"
	"github.com/z7zmey/php-parser/pkg/parser"
)

// C06 — malformed input is always reported; a silent parse is a complete parse.
//
// (1) G4: a generated valid program with one guaranteed-breaking edit (invalid by a
//     bracket/operator counting argument) must deliver at least one error.
// (2) Every delivered error (G4 and hostile inputs): non-empty message; no position or
//     an in-range position with correct lines; the span of a message naming a single
//     character selects that character; positioned errors arrive in source order.
// (3) Callback independence: the tree returned with a callback equals (full
//     fingerprint) the tree returned without one.
// (4) A silent parse returns a non-nil tree that tiles and prints back (checkTokens /
//     checkPrint are applied to it).

func errSig(e *errors.Error) string {
	if e == nil {
		return "<nil>"
	}
	m := numStrip(e.Msg)
	if i := strings.Index(m, ", expecting"); i >= 0 {
		m = m[:i]
	}
	return m
}

// checkErrorShapes validates every delivered error; returns false on a violation.
func checkErrorShapes(c *core.Ctx, src []byte, ver string, errs []*errors.Error) bool {
	w := core.W(src, ver)
	fam := fmt.Sprintf("fam%d", obs.Fam(ver))
	lines := obs.NewLines(src)
	lastStart := -1
	lastMsg := ""
	sawEnd := false
	for i, e := range errs {
		if e == nil {
			c.Violation("errshape|nil-error|"+fam, fmt.Sprintf("error #%d delivered to the callback is nil", i), w)
			return false
		}
		c.Add("errors_checked", 1)
		if strings.TrimSpace(e.Msg) == "" {
			c.Violation("errshape|empty-message|"+fam, fmt.Sprintf("error #%d has an empty message", i), w)
			return false
		}
		p := e.Pos
		if p == nil {
			c.Add("errors_without_position(end of input)", 1)
			sawEnd = true
			continue
		}
		if sawEnd {
			cls := "syntax"
			if !strings.HasPrefix(e.Msg, "syntax error") && !strings.HasPrefix(e.Msg, "WARNING") {
				cls = "semantic:" + numStrip(e.Msg)
			}
			c.Violation("errshape|order|after-end-of-input|"+cls+"|"+fam, fmt.Sprintf("error %q at offset %d is delivered after the error that has no position (end of input)", e.Msg, p.StartPos), w)
			return false
		}
		sig := errSig(e)
		if p.StartPos < 0 || p.EndPos < p.StartPos || p.EndPos > len(src) {
			c.Violation("errshape|range|"+sig+"|"+fam, fmt.Sprintf("error %q has position %d..%d outside 0..%d", e.Msg, p.StartPos, p.EndPos, len(src)), w)
			return false
		}
		if want := lines.Line(p.StartPos); p.StartLine != want {
			c.Violation("errshape|startline|"+sig+"|"+fam, fmt.Sprintf("error %q at offset %d reports line %d, the reference line is %d", e.Msg, p.StartPos, p.StartLine, want), w)
			return false
		}
		if p.EndPos > p.StartPos {
			if want := lines.Line(p.EndPos - 1); p.EndLine != want {
				c.Violation("errshape|endline|"+sig+"|"+fam, fmt.Sprintf("error %q ending at offset %d reports end line %d, the reference line is %d", e.Msg, p.EndPos, p.EndLine, want), w)
				return false
			}
		}
		if strings.HasPrefix(e.Msg, "syntax error") || strings.Contains(e.Msg, "Unexpected character") {
			if p.EndPos == p.StartPos {
				c.Violation("errshape|empty-span|"+sig+"|"+fam, fmt.Sprintf("error %q has an empty span at %d", e.Msg, p.StartPos), w)
				return false
			}
		}
		// a message naming a single-character token: unexpected 'X'
		if k := strings.Index(e.Msg, "unexpected '"); k >= 0 && len(e.Msg) >= k+14 && e.Msg[k+13] == '\'' {
			ch := e.Msg[k+12]
			got := src[p.StartPos:p.EndPos]
			// the close tag and "; ?>" are delivered as ';'
			if !(len(got) >= 1 && (got[0] == ch || (ch == ';' && strings.Contains(string(got), "?>")))) {
				c.Violation("errshape|span-text|unexpected-char-token|"+fam, fmt.Sprintf("error %q selects source text %q", e.Msg, got), w)
				return false
			}
			c.Add("single_char_spans_checked", 1)
		}
		if k := strings.Index(e.Msg, "Unexpected character in input: '"); k >= 0 {
			rest := e.Msg[k+len("Unexpected character in input: '"):]
			got := src[p.StartPos:p.EndPos]
			if len(got) != 1 || len(rest) == 0 || (rest[0] != got[0] && got[0] < 0x80) {
				c.Violation("errshape|span-text|unexpected-character|"+fam, fmt.Sprintf("error %q selects source text %q", e.Msg, got), w)
				return false
			}
			c.Add("single_char_spans_checked", 1)
		}
		if p.StartPos < lastStart {
			cls := "other"
			if strings.HasPrefix(e.Msg, "syntax error") || strings.HasPrefix(e.Msg, "WARNING") {
				cls = "syntax"
			} else {
				cls = "semantic:" + numStrip(e.Msg)
			}
			c.Violation("errshape|order|"+cls+"|after:"+lastMsg+"|"+fam, fmt.Sprintf("error %q at offset %d is delivered after an error at offset %d (%q)", e.Msg, p.StartPos, lastStart, lastMsg), w)
			return false
		}
		lastStart = p.StartPos
		lastMsg = errSig(e)
		if !strings.HasPrefix(lastMsg, "syntax error") && !strings.HasPrefix(lastMsg, "WARNING") {
			lastMsg = "semantic"
		} else if strings.HasPrefix(lastMsg, "syntax error") {
			lastMsg = "syntax error"
		} else {
			lastMsg = "lexer warning"
		}
	}
	return true
}

// checkCallbackIndependence parses again without a callback and compares the trees.
func checkCallbackIndependence(c *core.Ctx, src []byte, ver string, with obs.ParseResult) bool {
	without := obs.Parse(src, ver, false)
	if without.Panic != nil || with.Panic != nil {
		return true // C01's business
	}
	a, b := obs.Fingerprint(with.Root, false), obs.Fingerprint(without.Root, false)
	c.Add("callback_vs_nil_trees_compared", 1)
	if a != b {
		c.Violation(fmt.Sprintf("callback|tree-differs|fam%d|%s", obs.Fam(ver), obs.DiffPath(with.Root, without.Root)), "the tree returned with an error callback differs from the tree returned without one: "+obs.FirstDiff(a, b), core.W(src, ver))
		return false
	}
	return true
}

// checkReentrancy parses src with a callback that itself parses another source (a second lexer
// and parser alive while the first one is suspended in its error report): the outer tree and
// errors must be what they are without the nested parse, and so must the nested result.
func checkReentrancy(c *core.Ctx, src []byte, ver string, plain obs.ParseResult) bool {
	if len(plain.Errors) == 0 || plain.Panic != nil || core.Hash64(src)%3 != 0 {
		return true
	}
	other := []byte("<?php\nfunction f($a) {\n  return \"x $a\" . <<<A\n  b\nA;\n}\n$b = [1,\n 2];\n) ;\n")
	otherAlone := obs.Parse(append([]byte(nil), other...), "7.4", true)
	var nested []obs.ParseResult
	var errs []*errors.Error
	cfg := conf.Config{Version: obs.Ver(ver)}
	cfg.ErrorHandlerFunc = func(e *errors.Error) {
		errs = append(errs, e)
		if len(nested) < 3 {
			nested = append(nested, obs.Parse(append([]byte(nil), other...), "7.4", true))
		}
	}
	var root ast.Vertex
	pn := obs.Try(func() { root, _ = parser.Parse(append([]byte(nil), src...), cfg) })
	c.Add("nested_parse_from_callback_cases", 1)
	w := core.W(src, ver).With("scenario", "a second parse is run from inside the error callback")
	if pn != nil {
		c.Violation(pn.Sig+"|nested-parse", "Parse panicked when the error callback ran a nested parse: "+pn.Msg, w)
		return false
	}
	if d := obs.DiffPath(plain.Root, root); d != "" {
		c.Violation("reentrancy|outer-tree-differs|"+d, "the tree of a parse whose error callback ran another parse differs from the tree of the plain parse: "+d, w)
		return false
	}
	if a, b := strings.Join(obs.ErrStrings(plain.Errors), "|"), strings.Join(obs.ErrStrings(errs), "|"); a != b {
		c.Violation("reentrancy|outer-errors-differ", "errors differ when the callback runs a nested parse: "+obs.FirstDiff(a, b), w)
		return false
	}
	for _, n := range nested {
		if d := obs.DiffPath(otherAlone.Root, n.Root); d != "" || n.Panic != nil {
			c.Violation("reentrancy|nested-tree-differs|"+d, "a parse run from inside an error callback yields a different tree than when run alone: "+d, w)
			return false
		}
	}
	return true
}

// c06Input: error shapes, callback independence, completeness of silent parses.
func c06Input(c *core.Ctx, src []byte, ver string) (nerr int, ok bool) {
	c.Inflight(src, "C06 parse "+ver)
	pr := obs.Parse(src, ver, true)
	if pr.Panic != nil {
		c.Add("parses_that_panicked(C01's business)", 1)
		return 0, false
	}
	ok = checkErrorShapes(c, src, ver, pr.Errors)
	if !checkCallbackIndependence(c, src, ver, pr) {
		ok = false
	}
	if !checkReentrancy(c, src, ver, pr) {
		ok = false
	}
	if len(pr.Errors) == 0 {
		c.Add("silent_parses", 1)
		if pr.Root == nil {
			c.Violation(fmt.Sprintf("silent|nil-root|fam%d", obs.Fam(ver)), "no error was delivered but the returned tree is nil", core.W(src, ver))
			return 0, false
		}
		st := checkTokens(c, pr.Root, src, ver, true)
		if !st.Tiled {
			ok = false
		} else if !checkPrint(c, pr.Root, src, ver) {
			ok = false
		}
	}
	return len(pr.Errors), ok
}

func c06Broken(c *core.Ctx, idx int) {
	r := core.NewRand(c.P.Seed, "C06", idx)
	fam := 7
	if r.Chance(2, 5) {
		fam = 5
	}
	pc := makeProgram(r, fam, false, 6)
	toks := pc.root.Tokens()
	n := c.P.Pick(6, 20)
	for k := 0; k < n; k++ {
		bt, edit, ok := gen.Break(r.Split(fmt.Sprint("edit", k)), toks)
		if !ok {
			c.Inconclusive("program offers no place for a guaranteed-breaking edit")
			return
		}
		mode := []int{gen.LayCanon, gen.LayMinimal, gen.LayLF, gen.LayCRLF, gen.LayMixed}[r.Intn(5)]
		src := gen.Render(bt, mode, r.Split(fmt.Sprint("lay", k)), nil)
		nerr, _ := c06Input(c, src, pc.ver)
		c.Add("broken_programs_parsed", 1)
		c.Cover("edits", strings.SplitN(edit, "-after-", 2)[0])
		if nerr == 0 {
			pr := obs.Parse(src, pc.ver, true)
			if pr.Panic != nil {
				continue
			}
			c.Violation(fmt.Sprintf("swallowed|fam%d|%s", fam, edit), fmt.Sprintf("a program made invalid by the edit %q was parsed under %s without any error", edit, pc.ver), core.W(src, pc.ver).With("edit", edit))
			return
		}
	}
	c.Cover("family", fmt.Sprint(fam))
	c.NonTrivial([]byte(pc.root.Canon()), []byte(pc.ver))
	if c.WantSample() && len(toks) < 40 && len(toks) > 8 {
		bt, edit, _ := gen.Break(r.Split("sample"), toks)
		src := gen.Render(bt, gen.LayCanon, r, nil)
		pr := obs.Parse(src, pc.ver, true)
		c.Sample(map[string]interface{}{"valid_program": string(gen.Render(toks, gen.LayCanon, r, nil)), "edit": edit, "broken": string(src), "version": pc.ver, "errors_delivered": obs.ErrStrings(pr.Errors)})
	}
}

// c06Semantic: programs that are invalid for a reason the grammar tables do not see.
//
//	(1) PHP 5 family: a statement PHP rejects at compile time and this parser reports from its grammar
//	    actions (a trait with extends / implements, a foreach whose key is taken by reference), inserted
//	    at a top-level statement boundary of a valid PHP-mode program;
//	(2) both families: the closing label of the LAST heredoc/nowdoc of a valid program lengthened by one
//	    label character — the label never occurs again, so the string is never closed.
//
// Both must deliver at least one error; the error-shape, callback and silent-parse monitors run as usual.
var c06Semantic5 = [][]string{
	{"trait", "Tq1", "extends", "Bq", "{", "}"},
	{"trait", "Tq2", "implements", "Iq", "{", "}"},
	{"trait", "Tq3", "implements", "Iq", ",", "Jq", "{", "}"},
	{"trait", "Tq4", "extends", "Bq", "implements", "Iq", "{", "}"},
	{"foreach", "(", "$aq", "as", "&", "$kq", "=>", "$vq", ")", "{", "}"},
	{"foreach", "(", "$aq", "as", "&", "$kq", "=>", "&", "$vq", ")", ";"},
	{"foreach", "(", "fq", "(", ")", "as", "&", "$kq", "=>", "$vq", ")", "{", "}"},
	{"foreach", "(", "$aq", "as", "&", "$kq", "=>", "$vq", ")", ":", "endforeach", ";"},
}

func c06Semantic(c *core.Ctx, idx int) {
	r := core.NewRand(c.P.Seed, "C06sem", idx)
	var src []byte
	var ver, edit string
	fam := 5
	if idx%8 == 1 {
		g := gen.NewG(r.Split("prog"), gen.Opts{Fam: 5, NoHTML: true, MaxDepth: r.Range(2, 4), MaxStmts: 5})
		root := g.Program()
		ver = progVersion(r, 5, false)
		toks := root.Tokens()
		var bnd []int
		for _, s := range gen.ListSites(root) {
			if s.Kind == "Root" {
				bnd = s.Boundaries
			}
		}
		if len(bnd) == 0 {
			c.Inconclusive("program without top-level statement boundary")
			return
		}
		j := bnd[r.Intn(len(bnd))]
		m := c06Semantic5[r.Intn(len(c06Semantic5))]
		var mt []gen.Tok
		for _, s := range m {
			mt = append(mt, gen.Tok{S: s})
		}
		bt := append(append(append([]gen.Tok{}, toks[:j]...), mt...), toks[j:]...)
		edit = "php5-semantic:" + m[0] + "-" + m[2]
		if m[0] == "foreach" {
			edit = "php5-semantic:foreach-reference-key"
		}
		src = gen.Render(bt, []int{gen.LayCanon, gen.LayMinimal, gen.LayLF, gen.LayCRLF, gen.LayMixed}[r.Intn(5)], r.Split("lay"), nil)
	} else {
		if r.Chance(3, 5) {
			fam = 7
		}
		var toks []gen.Tok
		open := -1
		for try := 0; try < 30 && open < 0; try++ {
			pc := makeProgram(r.Split(fmt.Sprint("p", try)), fam, false, 6)
			toks, ver = pc.root.Tokens(), pc.ver
			for i, tk := range toks {
				if strings.HasPrefix(strings.TrimLeft(tk.S, "bB"), "<<<") && !tk.Str {
					open = i
				}
			}
		}
		if open < 0 {
			c.Inconclusive("no program with a heredoc found")
			return
		}
		label := strings.Trim(strings.TrimLeft(strings.TrimLeft(gen.PlainTok(toks[open].S), "bB"), "<"), "'\"\r\n")
		cl := -1
		for i := open + 1; i < len(toks); i++ {
			if toks[i].S == label {
				cl = i
				break
			}
		}
		if cl < 0 {
			core.Fail("C06: closing label %q of the heredoc opener %q not found in the token stream", label, toks[open].S)
		}
		bt := append([]gen.Tok{}, toks...)
		bt[cl].S = label + r.Pick("1", "x", "_", "9", "Z", "\xc3\x89")
		edit = "lengthen-last-heredoc-closing-label"
		src = gen.Render(bt, []int{gen.LayCanon, gen.LayLF, gen.LayCRLF, gen.LayMixed}[r.Intn(4)], r.Split("lay"), nil)
	}
	nerr, _ := c06Input(c, src, ver)
	c.Add("broken_programs_parsed", 1)
	c.Cover("edits", edit)
	if nerr == 0 {
		if pr := obs.Parse(src, ver, true); pr.Panic != nil {
			return
		}
		c.Violation(fmt.Sprintf("swallowed|fam%d|%s", fam, edit), fmt.Sprintf("a program made invalid by the edit %q was parsed under %s without any error", edit, ver), core.W(src, ver).With("edit", edit))
		return
	}
	c.NonTrivial(src, []byte(ver))
}

// c06Delete: a mandatory operand (gen.MandatorySpans: the variable of a catch, a loop condition, the right side
// of an assignment, the class of a new, the member name behind ->, ...) is deleted from a valid program as a
// whole: every such program is invalid and must deliver an error.
func c06Delete(c *core.Ctx, idx int) {
	r := core.NewRand(c.P.Seed, "C06del", idx)
	fam := 7
	if r.Chance(2, 5) {
		fam = 5
	}
	pc := makeProgram(r, fam, false, 6)
	toks := pc.root.Tokens()
	spans := gen.MandatorySpans(pc.root)
	if len(spans) == 0 {
		c.Inconclusive("program without a deletable mandatory operand")
		return
	}
	// "__halt_compiler();" anywhere but at the outermost level is a compile-time error of PHP (both families)
	var nested []int
	for _, site := range gen.ListSites(pc.root) {
		switch site.Kind {
		case "StmtFunction", "ExprClosure", "StmtStmtList", "StmtCase", "StmtDefault", "StmtCatch", "StmtFinally", "StmtTry":
			for _, j := range site.Boundaries {
				// in PHP mode only: not behind a close tag (that is inline HTML), not glued to a neighbour
				if j > 0 && j < len(toks) && !toks[j].Str && !toks[j-1].Str && toks[j].Gap == gen.GapFree && toks[j].S != "" && !strings.Contains(toks[j-1].S, "?>") {
					nested = append(nested, j)
				}
			}
		}
	}
	n := c.P.Pick(4, 12)
	for k := 0; k < n; k++ {
		sp := spans[r.Intn(len(spans))]
		bt := append(append([]gen.Tok{}, toks[:sp.From]...), toks[sp.To:]...)
		if len(nested) > 0 && r.Chance(1, 8) {
			j := nested[r.Intn(len(nested))]
			hc := []gen.Tok{{S: r.Pick("__halt_compiler", "__HALT_COMPILER", "__Halt_Compiler")}, {S: "(", Gap: gen.GapBlank}, {S: ")", Gap: gen.GapBlank}, {S: ";", Gap: gen.GapBlank}}
			bt = append(append(append([]gen.Tok{}, toks[:j]...), hc...), toks[j:]...)
			sp.Rule = "insert:nested-halt-compiler"
		}
		mode := []int{gen.LayCanon, gen.LayMinimal, gen.LayLF, gen.LayCRLF, gen.LayMixed, gen.LayComments}[r.Intn(6)]
		src := gen.Render(bt, mode, r.Split(fmt.Sprint("lay", k)), nil)
		nerr, _ := c06Input(c, src, pc.ver)
		c.Add("broken_programs_parsed", 1)
		c.Add("mandatory_operand_deletions", 1)
		if !strings.HasPrefix(sp.Rule, "insert:") {
			sp.Rule = "delete:" + sp.Rule
		}
		c.Cover("edits", sp.Rule)
		if nerr == 0 {
			if pr := obs.Parse(src, pc.ver, true); pr.Panic != nil {
				continue
			}
			c.Violation(fmt.Sprintf("swallowed|fam%d|%s", fam, sp.Rule), fmt.Sprintf("a program made invalid by the edit %s (a mandatory operand deleted / __halt_compiler(); inside a block) was parsed under %s without any error", sp.Rule, pc.ver), core.W(src, pc.ver).With("edit", sp.Rule).With("valid_program", string(gen.Render(toks, gen.LayCanon, r, nil))))
			return
		}
	}
	c.NonTrivial([]byte(pc.root.Canon()), []byte(pc.ver), []byte("del"))
}

// c06FlexOld: a program with a flexible heredoc terminator (indented closing label, or code behind it on the same
// line) is not a valid program for any version below 7.3 — of either family: the heredoc is not closed there.
func c06FlexOld(c *core.Ctx, idx int) {
	r := core.NewRand(c.P.Seed, "C06flex", idx)
	fam := []int{5, 7}[r.Intn(2)]
	var root *gen.Node
	for try := 0; try < 40; try++ {
		g := gen.NewG(r.Split(fmt.Sprint("p", try)), gen.Opts{Fam: fam, Flex73: true, NoHTML: true, MaxDepth: r.Range(2, 4), MaxStmts: 5})
		root = g.Program()
		if root.HasFlag(gen.FFlex73) {
			break
		}
		root = nil
	}
	if root == nil {
		c.Inconclusive("no program with a flexible heredoc found")
		return
	}
	ver := r.Pick("7.0", "7.1", "7.2")
	if fam == 5 {
		ver = r.Pick("5.0", "5.2", "5.3", "5.4", "5.5", "5.6")
	}
	src := gen.Render(root.Tokens(), []int{gen.LayCanon, gen.LayLF, gen.LayCRLF, gen.LayMixed}[r.Intn(4)], r.Split("lay"), nil)
	nerr, _ := c06Input(c, src, ver)
	c.Add("broken_programs_parsed", 1)
	c.Cover("edits", "flexible-heredoc-under-old-version")
	if nerr == 0 {
		if pr := obs.Parse(src, ver, true); pr.Panic != nil {
			return
		}
		c.Violation(fmt.Sprintf("swallowed|fam%d|flexible-heredoc-under-old-version", fam), fmt.Sprintf("a program with a flexible heredoc terminator was parsed under %s without any error", ver), core.W(src, ver))
		return
	}
	c.NonTrivial(src, []byte(ver))
}

// c06Deep: nesting depth as the hostile dimension. One nesting construct (brackets of every kind, blocks,
// ifs, calls, closures, ternaries, prefix-operator and assignment chains) is nested n deep, n drawn from
// round numbers, powers of two and their neighbours up to 70 000 — the sizes at which a parser stack, a
// recursion guard or a counter would give up. The valid program must parse silently and completely
// (tiling + print-back through c06Input); the same program with one closer removed from the middle of
// the closing run, or one opener too many, must deliver an error.
var c06DeepN = []int{63, 64, 65, 127, 128, 129, 199, 200, 255, 256, 257, 499, 500, 511, 512, 513, 999, 1000, 1001, 1023, 1024, 1025, 1999, 2000, 2047, 2048, 2049,
	3333, 4095, 4096, 4097, 4999, 5000, 5001, 8191, 8192, 8193, 9999, 10000, 10001, 12500, 16383, 16384, 16385, 20000, 25000, 32767, 32768, 32769, 40000, 50000, 65535, 65536, 65537, 70000}

func c06DeepShapes() []gen.ScaledShape {
	var out []gen.ScaledShape
	for _, sh := range gen.ScaledShapes {
		switch {
		case strings.HasPrefix(sh.Name, "nested-") && sh.Name != "nested-interpolations":
			out = append(out, sh)
		case sh.Name == "unary-chain", sh.Name == "cast-chain", sh.Name == "assign-chain", sh.Name == "pow-chain-right-assoc", sh.Name == "short-ternary-chain", sh.Name == "plus-chain", sh.Name == "concat-chain", sh.Name == "elseif-chain", sh.Name == "dimension-chain", sh.Name == "method-chain":
			out = append(out, sh)
		}
	}
	return out
}

func c06Deep(c *core.Ctx, idx int) {
	r := core.NewRand(c.P.Seed, "C06deep", idx)
	shapes := c06DeepShapes()
	sh := shapes[r.Intn(len(shapes))]
	n := c06DeepN[r.Intn(len(c06DeepN))]
	if r.Chance(1, 4) {
		n = r.Range(60, 70000)
	}
	if !c.P.Thorough() && n > 20000 && r.Chance(2, 3) {
		n = n%20000 + 60
	}
	ver := progVersion(r, []int{5, 7}[r.Intn(2)], false)
	src := []byte(sh.Make(n, r.Pick("\n", "\n", "\r\n")))
	nerr, _ := c06Input(c, src, ver)
	c.Add("deep_programs", 1)
	c.Max("deepest_nesting", int64(n))
	c.Cover("deep-shapes", sh.Name)
	if nerr > 0 {
		pr := obs.Parse(src, ver, true)
		c.Violation(fmt.Sprintf("deep|rejected|%s|fam%d", sh.Name, obs.Fam(ver)), fmt.Sprintf("the valid program %s nested %d deep delivered errors under %s: %v", sh.Name, n, ver, obs.ErrStrings(pr.Errors)), core.W(src, ver).With("shape", sh.Name).With("n", fmt.Sprint(n)))
		return
	}
	// broken variants (only for the shapes whose closers are brackets)
	if strings.HasPrefix(sh.Name, "nested-") && sh.Name != "nested-closures" {
		s := string(src)
		var broken string
		edit := ""
		if k := strings.LastIndexAny(s, ")]}"); k > 0 && r.Bool() {
			// remove a closer from the middle of the closing run
			first := k
			for first > 0 && strings.ContainsRune(")]} :2\r\n", rune(s[first-1])) {
				first--
			}
			mid := first + (k-first)/2
			for mid < k && !strings.ContainsRune(")]}", rune(s[mid])) {
				mid++
			}
			broken, edit = s[:mid]+s[mid+1:], "closer-removed"
		} else {
			k := strings.IndexAny(s, "([{")
			if k < 0 {
				return
			}
			broken, edit = s[:k]+s[k:k+1]+s[k:], "opener-doubled"
		}
		nb, _ := c06Input(c, []byte(broken), ver)
		c.Add("deep_broken_programs", 1)
		if nb == 0 {
			if pr := obs.Parse([]byte(broken), ver, true); pr.Panic == nil {
				c.Violation(fmt.Sprintf("swallowed|fam%d|deep-%s|%s", obs.Fam(ver), edit, sh.Name), fmt.Sprintf("%s nested %d deep with one %s was parsed under %s without any error", sh.Name, n, edit, ver), core.W([]byte(broken), ver).With("shape", sh.Name).With("n", fmt.Sprint(n)))
				return
			}
		}
	}
	c.NonTrivial([]byte(sh.Name), []byte(fmt.Sprint(n)), []byte(ver))
}

func init() {
	core.Register(&core.Check{
		ID:   "C06",
		Rule: "cases = known-finding witnesses ++ alternately (a) a generated valid program with 6 (quick) / 20 (thorough) independent guaranteed-breaking edits {insert unmatched closer/opener, delete one bracket, truncate after an operator, insert the operator pair '* /', append a stray quote} in PRNG layouts: >= 1 error required, (a'') a valid program from which one mandatory operand is deleted as a whole (26 node.role rules: catch variable, conditions, right side of an assignment, class of new / instanceof, member names, foreach source and target, initialisers, declared names; the last element of 19 lists that admit no trailing separator), or into which a nested __halt_compiler(); is inserted: >= 1 error required, (a') a valid program with a PHP 5 compile-time error reported by the grammar actions (trait with extends/implements, foreach key by reference) inserted at a top-level boundary, or with the closing label of its last heredoc lengthened: >= 1 error required, (b) a hostile G3 input, (c) every 100th case a nesting construct nested 60..70 000 deep (brackets of every kind, blocks, ifs, calls, closures, ternaries, operator chains; depths at round numbers and powers of two): the valid program must parse silently and completely, the same program with one closer removed or one opener doubled must deliver an error, and 3 (quick) / 24 (thorough) runs of the real CLI with -e -p over 200 / 800 such files whose printed error blocks must equal the errors delivered for each file alone; for every parse: shape of every delivered error, callback-vs-nil tree equality, (for a third of the inputs with errors) a nested parse run from inside the callback, and for silent parses non-nil tree + tiling + print-back; non-trivial = program whose every broken variant was reported / hostile input that delivered an error; distinct by expected structure / input bytes",
		Assumptions: []string{
			"'invalid' is only asserted for edits that are invalid by a counting argument (brackets balance in every valid program; no valid program ends in an operator; no grammar allows '* /')",
			"an error message of the form unexpected 'X' names a single-character token whose text must be selected by the span; the close tag is delivered as ';'",
		},
		Plan: func(p core.Params) int { return p.Pick(60000, 1500000) },
		Run: func(c *core.Ctx, idx int) {
			if idx < c.P.Pick(3, 24) {
				c06CLI(c, idx)
				return
			}
			if idx%100 == 7 {
				c06Deep(c, idx)
				return
			}
			if idx%50 == 11 {
				c06FlexOld(c, idx)
				return
			}
			if idx%2 == 0 {
				c06Broken(c, idx)
				return
			}
			if idx%8 == 1 || idx%8 == 5 {
				c06Semantic(c, idx)
				return
			}
			if idx%8 == 3 {
				c06Delete(c, idx)
				return
			}
			pc := genParseCase(c.P.Seed, "C06h", idx, 85)
			nerr, _ := c06Input(c, pc.Src, pc.Ver)
			c.Add("hostile_inputs", 1)
			if nerr > 0 {
				c.NonTrivial(pc.Src, []byte(pc.Ver))
			}
		},
		RunWitness: func(c *core.Ctx, w core.Witness) {
			c06Input(c, w.Src, w.Ver)
			c.NonTrivial(w.Src, []byte(w.Ver))
		},
		MinNonTrivial: 500,
		CaseCPU:       120,
	})
}
