package mon

import (
	"bytes"
	"fmt"
	"sort"
	"strings"
	"sync"

	"verif/harness/core"
	"verif/harness/obs"

	"github.com/z7zmey/php-parser/pkg/ast"
	"github.com/z7zmey/php-parser/pkg/visitor"
	"github.com/z7zmey/php-parser/pkg/visitor/dumper"
	"github.com/z7zmey/php-parser/pkg/visitor/nsresolver"
	"github.com/z7zmey/php-parser/pkg/visitor/printer"
	"github.com/z7zmey/php-parser/pkg/visitor/traverser"
)

// C13 — printing, dumping, traversing and resolving never modify the tree.
//
// For a parsed tree a PRNG history over the passive operations is executed. After
// every operation (a) the pointer-level fingerprint of the tree (every exported field
// reachable by reflection, incl. addresses, slice len/cap and data pointers) and the
// canary-guarded source array must be unchanged, and (b) the operation's output must
// equal the output the same operation produces on a freshly parsed tree.
// thorough tier: two goroutines run histories on the same tree under the race detector.

var c13Ops = []string{"print", "print(php-state)", "print(subtree)", "dump", "dump+tokens", "dump+positions", "dump+tokens+positions", "traverse(null)", "traverse(recording)", "resolve", "accept(null)", "dump(failing-writer)", "print(failing-writer)"}

// c13FailingWriter accepts limit bytes and then fails every Write: a full disk, a closed pipe. The dumper
// reports that by panicking (recovered here), the printer ignores it; either way the operation is abandoned
// half-way, and nothing of it may be visible to any later operation.
type c13FailingWriter struct {
	buf   bytes.Buffer
	limit int
}

func (w *c13FailingWriter) Write(b []byte) (int, error) {
	if w.buf.Len()+len(b) > w.limit {
		n := w.limit - w.buf.Len()
		if n < 0 {
			n = 0
		}
		w.buf.Write(b[:n])
		return n, fmt.Errorf("verif: injected write error after %d bytes", w.limit)
	}
	return w.buf.Write(b)
}

// resolvedNames renders the resolver's map independent of node addresses.
func resolvedNames(root ast.Vertex) (string, *obs.Panic) {
	nsr := nsresolver.NewNamespaceResolver()
	p := obs.Try(func() { traverser.NewTraverser(nsr).Traverse(root) })
	if p != nil {
		return "", p
	}
	var out []string
	for n, name := range nsr.ResolvedNames {
		pos := "@nil"
		if ps := n.GetPosition(); ps != nil {
			pos = fmt.Sprintf("@%d-%d", ps.StartPos, ps.EndPos)
		}
		out = append(out, obs.Kind(n)+pos+"="+name)
	}
	sort.Strings(out)
	return strings.Join(out, "\n"), nil
}

// c13Run executes one operation and returns its output.
func c13Run(op string, root ast.Vertex, src []byte) (string, *obs.Panic) {
	return c13RunWith(op, root, src, false)
}

// c13RunWith: with long, the dump operations go through the worker's long-lived Dumper objects (one per option
// set, used for every tree and every history of the worker) — "any number of times" includes the operator
// object being the same one; the output must still be the output of a new dumper on a fresh tree.
func c13RunWith(op string, root ast.Vertex, src []byte, long bool) (string, *obs.Panic) {
	if long {
		switch op {
		case "dump":
			return dumpTreeLongLived(root, dumpOpts{false, false})
		case "dump+tokens":
			return dumpTreeLongLived(root, dumpOpts{true, false})
		case "dump+positions":
			return dumpTreeLongLived(root, dumpOpts{false, true})
		case "dump+tokens+positions":
			return dumpTreeLongLived(root, dumpOpts{true, true})
		case "traverse(null)":
			p := obs.Try(func() { c13LongTraverser.Traverse(root) })
			return "", p
		}
	}
	switch op {
	case "print":
		pv, p := printTree(root, src)
		return pv.Buf.String(), p
	case "print(php-state)":
		// the printer's other configuration: it starts in PHP state (no open tag is supplied)
		var buf bytes.Buffer
		p := obs.Try(func() { root.Accept(printer.NewPrinter(&buf).WithState(printer.PrinterStatePHP)) })
		return buf.String(), p
	case "print(subtree)":
		// printing a part of the tree (its first statement) must not touch the tree either
		var buf bytes.Buffer
		p := obs.Try(func() {
			if kids := obs.Children(root); len(kids) > 0 {
				kids[0].Accept(printer.NewPrinter(&buf).WithState(printer.PrinterStatePHP))
			}
		})
		return buf.String(), p
	case "dump(failing-writer)":
		w := &c13FailingWriter{limit: 7 + len(src)%97*3}
		p := obs.Try(func() { dumper.NewDumper(w).WithTokens().Dump(root) })
		return w.buf.String(), p
	case "print(failing-writer)":
		w := &c13FailingWriter{limit: 3 + len(src)%41}
		p := obs.Try(func() { root.Accept(printer.NewPrinter(w)) })
		return w.buf.String(), p
	case "dump":
		return dumpTree(root, dumpOpts{false, false})
	case "dump+tokens":
		return dumpTree(root, dumpOpts{true, false})
	case "dump+positions":
		return dumpTree(root, dumpOpts{false, true})
	case "dump+tokens+positions":
		return dumpTree(root, dumpOpts{true, true})
	case "traverse(null)":
		p := obs.Try(func() { traverser.NewTraverser(&visitor.Null{}).Traverse(root) })
		return "", p
	case "traverse(recording)":
		rec, p := c12Traverse(root)
		return strings.Join(rec.Methods, ","), p
	case "resolve":
		return resolvedNames(root)
	case "accept(null)":
		p := obs.Try(func() { root.Accept(&visitor.Null{}) })
		return "", p
	}
	core.Fail("C13: unknown op %s", op)
	return "", nil
}

var c13LongTraverser = traverser.NewTraverser(&visitor.Null{})

func c13Case(c *core.Ctx, pc parseCase, r *core.Rand, concurrent bool) {
	c.Inflight(pc.Src, "C13 "+pc.Ver)
	g := obs.NewGuard(pc.Src)
	src := g.Buf()
	pr := obs.Parse(src, pc.Ver, true)
	if pr.Panic != nil || pr.Root == nil {
		return
	}
	// baseline outputs from a fresh, separate parse of a private copy
	fresh := obs.Parse(append([]byte(nil), pc.Src...), pc.Ver, true)
	if fresh.Panic != nil || fresh.Root == nil {
		return
	}
	base := map[string]string{}
	basePanic := map[string]bool{}
	for _, op := range c13Ops {
		out, p := c13Run(op, fresh.Root, pc.Src)
		base[op] = out
		basePanic[op] = p != nil
	}
	before := obs.Fingerprint(pr.Root, true)
	w0 := core.W(pc.Src, pc.Ver)
	long := !concurrent && r.Chance(1, 2)
	if long {
		c.Add("histories_with_long_lived_operator_objects", 1)
		w0 = w0.With("operator_objects", "the worker's long-lived Dumper/Traverser objects")
	}
	history := func(rr *core.Rand, n int, report bool) []string {
		var hist []string
		for i := 0; i < n; i++ {
			op := c13Ops[rr.Intn(len(c13Ops))]
			hist = append(hist, op)
			out, p := c13RunWith(op, pr.Root, src, long)
			if !report {
				continue
			}
			c.Add("operations_executed", 1)
			c.Cover("operations", op)
			w := w0
			w.Hist = append([]string{}, hist...)
			if (p != nil) != basePanic[op] {
				c.Violation("history|panic-differs|"+op, fmt.Sprintf("%s behaves differently after the history %v than on a fresh tree (panic=%v)", op, hist[:len(hist)-1], p != nil), w)
				return hist
			}
			if p == nil && out != base[op] {
				prev := "first operation"
				if len(hist) > 1 {
					prev = hist[len(hist)-2]
				}
				if long {
					// a long-lived operator object that has gone wrong is replaced, so that one defect is not reported for every later tree
					for k := range c16Long {
						delete(c16Long, k)
					}
					c13LongTraverser = traverser.NewTraverser(&visitor.Null{})
				}
				c.Violation("history|output-differs|"+op+"|after:"+prev, fmt.Sprintf("output of %s after the history %v differs from its output on a fresh tree: %s", op, hist[:len(hist)-1], obs.FirstDiff(base[op], out)), w)
				return hist
			}
			if after := obs.Fingerprint(pr.Root, true); after != before {
				c.Violation("mutated|by:"+op+"|"+c13Where(before, after), fmt.Sprintf("%s modified the tree (history %v): %s", op, hist, obs.FirstDiff(before, after)), w)
				return hist
			}
			if off, ok := g.Check(); !ok {
				c.Violation("mutated|source-buffer|by:"+op, fmt.Sprintf("%s modified the caller's source buffer at relative offset %d (history %v)", op, off, hist), w)
				return hist
			}
		}
		return hist
	}
	n := r.Range(4, 16)
	var hist []string
	if concurrent {
		var wg sync.WaitGroup
		for k := 0; k < 2; k++ {
			wg.Add(1)
			rr := core.NewRand(int64(r.Uint64()), "g", k)
			go func() {
				defer wg.Done()
				history(rr, n, false)
			}()
		}
		wg.Wait()
		c.Add("concurrent_reader_pairs", 1)
		if after := obs.Fingerprint(pr.Root, true); after != before {
			c.Violation("mutated|concurrent-readers|"+c13Where(before, after), "two concurrent passive histories modified the tree: "+obs.FirstDiff(before, after), w0)
		}
	} else {
		hist = history(r, n, true)
	}
	nodes := strings.Count(before, "(")
	if nodes >= 3 {
		c.NonTrivial(pc.Src, []byte(pc.Ver), []byte(strings.Join(hist, ",")))
	}
	c.Cover("case_class", pc.Class)
	if len(pr.Errors) > 0 {
		c.Add("trees_with_errors", 1)
	}
	if c.WantSample() && nodes > 6 && len(pc.Src) < 160 && !concurrent {
		c.Sample(map[string]interface{}{"input": obsQuote(pc.Src, 200), "version": pc.Ver, "history": hist, "nodes": nodes})
	}
}

// c13Where extracts the kind and field around the first difference of two pointer fingerprints.
func c13Where(a, b string) string {
	i := 0
	for i < len(a) && i < len(b) && a[i] == b[i] {
		i++
	}
	p := a[:i]
	k := strings.LastIndex(p, "(")
	kind := "?"
	if k >= 0 {
		e := k + 1
		for e < len(a) && a[e] != ' ' && a[e] != '#' && a[e] != ')' {
			e++
		}
		kind = a[k+1 : e]
	}
	f := "?"
	if q := strings.LastIndex(p, "="); q >= 0 {
		if j := strings.LastIndexAny(p[:q], " ("); j >= 0 {
			f = p[j+1 : q]
		}
	}
	return kind + "." + f
}

func init() {
	core.Register(&core.Check{
		ID:   "C13",
		Rule: "cases = known-finding witnesses ++ trees parsed from the shared workload (corpus, hostile inputs incl. trees with errors, generated programs of both families with namespaces/imports, block-crossing concatenations); per tree one PRNG history of 4..16 operations over {print, print in PHP state, print of a subtree, dump x 4 option sets, traverse(null), traverse(recording), resolve names, Accept(null), dump and print into a writer that fails after a few bytes}, for half of the trees with the dump and traverse operations going through the worker's long-lived Dumper / Traverser objects (used for every tree before); after every operation: pointer-level fingerprint + guarded source unchanged, output equal to the fresh-tree output; a race-detector twin (C13R, built with -race) runs two histories concurrently on one tree for 1500 (quick) / 30000 (thorough) trees; non-trivial = tree with >= 3 nodes; distinct by (input, version, history)",
		Assumptions: []string{
			"the pointer-level fingerprint covers every exported field reachable by reflection, including node/token/position addresses, slice lengths, capacities and data pointers, and the bytes of every value",
			"resolver output is compared as the sorted list kind@span=name (node addresses differ between two parses)",
		},
		Plan:  func(p core.Params) int { return p.Pick(16000, 400000) },
		Twins: []string{"C13R"},
		Run: func(c *core.Ctx, idx int) {
			r := core.NewRand(c.P.Seed, "C13", idx)
			pc := genParseCase(c.P.Seed, "C13w", idx, 25)
			c13Case(c, pc, r, false)
		},
		RunWitness: func(c *core.Ctx, w core.Witness) {
			c13Case(c, parseCase{w.Src, w.Ver, "witness"}, core.NewRand(c.P.Seed, "C13wit"), false)
		},
		MinNonTrivial: 500,
	})
}

func init() {
	core.Register(&core.Check{
		ID:     "C13R",
		Hidden: true,
		Rule:   "race-detector twin of C13: two goroutines run PRNG histories of passive operations on the same tree",
		Plan:   func(p core.Params) int { return p.Pick(1500, 30000) },
		Race:   func(p core.Params) bool { return true },
		Run: func(c *core.Ctx, idx int) {
			r := core.NewRand(c.P.Seed, "C13R", idx)
			pc := genParseCase(c.P.Seed, "C13Rw", idx, 20)
			c13Case(c, pc, r, true)
		},
	})
}
