package mon

import (
	"bytes"
	"fmt"

	"verif/harness/core"
	"verif/harness/obs"

	"github.com/z7zmey/php-parser/pkg/ast"
	"github.com/z7zmey/php-parser/pkg/visitor/printer"
)

// Print monitor (C02): print(parse(src)) must equal src byte for byte when no error
// was delivered. The provenance writer (token values alias the source buffer) tells
// for the first differing output chunk whether it is printer glue, a skipped range or
// a repeated range, and the token tiling tells which slot of which node kind owns the
// source byte at which the difference starts.

// printTree prints root through a provenance writer.
func printTree(root ast.Vertex, src []byte) (*obs.Prov, *obs.Panic) {
	pv := obs.NewProv(src)
	p := obs.Try(func() { root.Accept(printer.NewPrinter(pv)) })
	return pv, p
}

func slotAt(root ast.Vertex, off int) string {
	best := "?"
	for _, t := range obs.SourceOrderTokens(root) {
		p := t.Tok.Position
		if p == nil {
			continue
		}
		if p.StartPos <= off && off < p.EndPos {
			return tokSlot(t)
		}
		if p.StartPos <= off {
			best = "after:" + tokSlot(t)
		}
	}
	return best
}

// checkPrint compares the printed text with the source; returns true when equal.
func checkPrint(c *core.Ctx, root ast.Vertex, src []byte, ver string) bool {
	w := core.W(src, ver)
	fam := fmt.Sprintf("fam%d", obs.Fam(ver))
	pv, pn := printTree(root, src)
	if pn != nil {
		c.Violation(pn.Sig, "printer panicked on a parsed tree: "+pn.Msg, w)
		return false
	}
	out := pv.Buf.Bytes()
	if bytes.Equal(out, src) {
		return true
	}
	d := 0
	for d < len(out) && d < len(src) && out[d] == src[d] {
		d++
	}
	// chunk containing output offset d
	class := "differs"
	pos := 0
	for _, ch := range pv.Chunks {
		if pos+len(ch.Data) > d {
			switch {
			case ch.Off < 0:
				g := string(ch.Data)
				if len(g) > 12 {
					g = g[:12]
				}
				class = fmt.Sprintf("inserted:%q", g)
			case ch.Off+(d-pos) > d:
				class = "skipped-source-bytes"
			case ch.Off+(d-pos) < d:
				class = "repeated-source-bytes"
			}
			break
		}
		pos += len(ch.Data)
	}
	if d >= len(out) {
		class = "output-ends-early"
	}
	c.Violation("print|"+fam+"|"+slotAt(root, d)+"|"+class,
		fmt.Sprintf("printed text differs from the source at offset %d (%s): source %s, printed %s", d, class, ctxAt(src, d), ctxAt(out, d)), w)
	return false
}

func ctxAt(b []byte, d int) string {
	lo, hi := d-20, d+20
	if lo < 0 {
		lo = 0
	}
	if hi > len(b) {
		hi = len(b)
	}
	if d > len(b) {
		d = len(b)
	}
	return fmt.Sprintf("%q⟦%q⟧", b[lo:d], b[d:hi])
}

func c02Case(c *core.Ctx, pc parseCase) {
	c.Inflight(pc.Src, "C02 parse "+pc.Ver)
	pr := obs.Parse(pc.Src, pc.Ver, true)
	if pr.Panic != nil || pr.Root == nil {
		c.Add("parses_without_tree_or_panicked", 1)
		return
	}
	if len(pr.Errors) > 0 {
		c.Add("parses_with_errors(skipped: the property is about silent parses)", 1)
		return
	}
	ok := checkPrint(c, pr.Root, pc.Src, pc.Ver)
	c.Add("silent_parses_printed", 1)
	c.Cover("silent_by_class", pc.Class)
	c.Cover("family", fmt.Sprint(obs.Fam(pc.Ver)))
	c.Add("bytes_compared", int64(len(pc.Src)))
	n := 0
	obs.Walk(pr.Root, func(x, _ ast.Vertex, _ string, _ int) bool {
		n++
		c.Cover("kinds_printed", obs.Kind(x))
		return true
	})
	if n > 2000 {
		c.Add("silent_parses_with_more_than_2000_nodes", 1)
	}
	if bytes.HasPrefix(pc.Src, []byte("#!")) {
		c.Add("silent_parses_with_shebang", 1)
	}
	if bytes.Contains(bytes.ToLower(pc.Src), []byte("__halt_compiler")) {
		c.Add("silent_parses_with_halt_compiler", 1)
	}
	if bytes.Contains(pc.Src, []byte("?>")) {
		c.Add("silent_parses_with_close_tag", 1)
	}
	if bytes.Contains(pc.Src, []byte("<<<")) {
		c.Add("silent_parses_with_heredoc", 1)
	}
	if n >= 2 {
		c.NonTrivial(pc.Src, []byte(pc.Ver))
	}
	if ok && c.WantSample() && n > 6 && len(pc.Src) < 240 {
		c.Sample(map[string]interface{}{"input": obsQuote(pc.Src, 240), "version": pc.Ver, "class": pc.Class, "nodes": n, "printed_equal": ok})
	}
}

func init() {
	core.Register(&core.Check{
		ID:          "C02",
		Rule:        "cases = known-finding witnesses ++ PRNG mix of {hostile inputs (of which the silently accepted ones count), corpus snippets, line-terminator rewrites, block-crossing concatenations, generated programs in PRNG trivia layouts} x PRNG version; every parse that delivers no error is printed and compared byte for byte with its source; the first 5 (quick) / 40 (thorough) cases run the real CLI with -pb over a generated directory of 160 / 600 silently parsing files (beginning with an open tag, inline HTML or a shebang; ending in PHP mode, a close tag or trailing HTML) under 5 versions and GOMAXPROCS 1/2/16: every file must be left byte-identical; non-trivial = silent parse whose tree has >= 2 nodes; distinct by (input bytes, version)",
		Assumptions: []string{"an input is judged only when the parser reported no error for it (whether it is valid PHP is C03/C06's business)"},
		Plan:        func(p core.Params) int { return p.Pick(200000, 4000000) },
		Run: func(c *core.Ctx, idx int) {
			if idx < c.P.Pick(5, 40) {
				c02CLI(c, idx)
				return
			}
			c02Case(c, genParseCase(c.P.Seed, "C02", idx, 30))
		},
		CaseCPU: 120,
		RunWitness: func(c *core.Ctx, w core.Witness) {
			c02Case(c, parseCase{w.Src, w.Ver, "witness"})
		},
		MinNonTrivial: 1000,
	})
}
