package gen

import (
	"math"
	"math/big"
	"sort"
	"strconv"
	"strings"

	"verif/harness/core"
)

// G1 — grammar-directed program generator with derivation.
//
// A generated program is a tree of *Node. Each node knows (a) the pkg/ast kind and the
// roles PHP's grammar prescribes for the construct (the expected tree) and (b) its token
// sequence (Parts), from which G2 renders concrete layouts. Expressions are built as
// operator trees and parenthesised only where the *documented* PHP precedence and
// associativity table (php.net "Operator Precedence", PHP 7.4) requires it; every pair
// of parentheses is itself a node (ExprBrackets), as in the library's AST.

// Gap classes: what may stand between the previous token and this one.
const (
	GapFree   = iota // any trivia PHP allows between tokens
	GapNone          // nothing (inside strings, around inline HTML)
	GapNeedWS        // must start with one blank (after "<?php")
	GapNL            // must start with a line terminator (after a pre-7.3 heredoc terminator)
	GapBlank         // blanks only, no comments (between -> and a reserved-word member name)
)

// Tok is one rendered token.
type Tok struct {
	S   string
	Gap int
	Str bool // the token lies inside an interpolated string / heredoc / backtick string (text or embedded expression)
}

// Kid is one role of the expected tree.
type Kid struct {
	Role string
	N    *Node
	L    []*Node
	List bool
}

// Node is one construct.
type Node struct {
	Kind   string
	Val    string
	HasVal bool
	Kids   []Kid
	Parts  []interface{} // Tok | *Node
	Prec   int           // expression precedence level (100 = atom)
	Prefix bool          // prefix-operator form (open to the right)
	Flags  int
}

const (
	FPhp7Only  = 1 << iota // syntax the PHP 5 grammar does not have
	FUVS                   // grouping changed with uniform variable syntax (excluded from the common subset)
	FFlex73                // flexible heredoc terminator (7.3+)
	FKnownDiff             // constructs with recorded PHP5/PHP7 divergences (excluded from C10's subset)
)

func (n *Node) HasFlag(f int) bool {
	if n == nil {
		return false
	}
	if n.Flags&f != 0 {
		return true
	}
	for _, k := range n.Kids {
		if k.List {
			for _, c := range k.L {
				if c.HasFlag(f) {
					return true
				}
			}
		} else if k.N.HasFlag(f) {
			return true
		}
	}
	return false
}

// canonFlagKinds mirrors obs.FlagKinds (gen does not import obs): kinds whose by-reference / variadic / static
// marker is a token of the node itself.
var canonFlagKinds = map[string]bool{"Argument": true, "ExprArrayItem": true, "ExprArrowFunction": true, "ExprClosure": true, "ExprClosureUse": true,
	"Parameter": true, "StmtClassMethod": true, "StmtForeach": true, "StmtFunction": true}

// Canon renders the expected structure in the canonical form of obs.StructureCanon:
// (Kind role:child role:[list] Value:"..."), roles sorted by name, absent roles omitted.
func (n *Node) Canon() string {
	var sb strings.Builder
	n.canon(&sb)
	return sb.String()
}

func (n *Node) canon(sb *strings.Builder) {
	if n == nil {
		sb.WriteString("nil")
		return
	}
	sb.WriteByte('(')
	sb.WriteString(n.Kind)
	if canonFlagKinds[n.Kind] {
		var fl []string
		seen := map[string]bool{}
		for _, p := range n.Parts {
			if tk, ok := p.(Tok); ok {
				switch l := strings.ToLower(tk.S); l {
				case "&", "...", "static":
					if !seen[l] {
						seen[l] = true
						fl = append(fl, l)
					}
				}
			}
		}
		if len(fl) > 0 {
			sort.Strings(fl)
			sb.WriteString("#" + strings.Join(fl, ","))
		}
	}
	type ent struct {
		name string
		k    *Kid
	}
	var es []ent
	for i := range n.Kids {
		k := &n.Kids[i]
		if k.List && len(k.L) == 0 || !k.List && k.N == nil {
			continue
		}
		es = append(es, ent{k.Role, k})
	}
	if n.HasVal {
		es = append(es, ent{"Value", nil})
	}
	sort.SliceStable(es, func(i, j int) bool { return es[i].name < es[j].name })
	for _, e := range es {
		sb.WriteByte(' ')
		sb.WriteString(e.name)
		sb.WriteByte(':')
		switch {
		case e.k == nil:
			sb.WriteString(strconv.Quote(n.Val))
		case e.k.List:
			sb.WriteByte('[')
			for i, c := range e.k.L {
				if i > 0 {
					sb.WriteByte(' ')
				}
				c.canon(sb)
			}
			sb.WriteByte(']')
		default:
			e.k.N.canon(sb)
		}
	}
	sb.WriteByte(')')
}

// Tokens flattens the node into its token sequence.
func (n *Node) Tokens() []Tok {
	var out []Tok
	n.flat(&out)
	return out
}

func (n *Node) flat(out *[]Tok) {
	for _, p := range n.Parts {
		switch v := p.(type) {
		case Tok:
			*out = append(*out, v)
		case *Node:
			if v != nil {
				v.flat(out)
			}
		}
	}
}

// CountKinds adds the kinds of the expected tree to m.
func (n *Node) CountKinds(m map[string]int) {
	if n == nil {
		return
	}
	m[n.Kind]++
	for _, k := range n.Kids {
		if k.List {
			for _, c := range k.L {
				c.CountKinds(m)
			}
		} else {
			k.N.CountKinds(m)
		}
	}
}

// ---------------------------------------------------------------------------------------------

// Opts selects the language family and the subset.
type Opts struct {
	Fam       int  // 5 or 7
	Common    bool // only syntax PHP 5 and PHP 7 share with the same meaning (C10)
	Flex73    bool // allow flexible heredoc terminators (version >= 7.3)
	MaxDepth  int
	MaxStmts  int
	NoHTML    bool // stay in PHP mode (for composition with statement-level edits)
	Formatter bool // avoid the constructs on which the formatter is known to fail (C17 composes programs from the rest)
}

// G is the generator state for one program.
type G struct {
	R           *core.Rand
	O           Opts
	n           int
	Ops         map[string]int // operator pair coverage: "parent>child"
	labels      int
	inClass     int
	inHeredoc   int
	dollarFirst int // >0: the variable expression being built must start with '$' + name
}

func NewG(r *core.Rand, o Opts) *G {
	if o.MaxDepth == 0 {
		o.MaxDepth = 4
	}
	if o.MaxStmts == 0 {
		o.MaxStmts = 8
	}
	return &G{R: r, O: o, Ops: map[string]int{}}
}

func (g *G) php7() bool { return g.O.Fam == 7 && !g.O.Common }

func t(s string) Tok               { return Tok{S: s} }
func tn(s string) Tok              { return Tok{S: s, Gap: GapNone} }
func tg(s string, gap int) Tok     { return Tok{S: s, Gap: gap} }
func one(role string, n *Node) Kid { return Kid{Role: role, N: n} }
func list(role string, l []*Node) Kid {
	return Kid{Role: role, L: l, List: true}
}

// kw renders a keyword in PRNG letter case.
func (g *G) kw(s string) Tok {
	switch g.R.Intn(4) {
	case 0:
		return t(strings.ToUpper(s))
	case 1:
		b := []byte(s)
		for i := range b {
			if g.R.Bool() && b[i] >= 'a' && b[i] <= 'z' {
				b[i] -= 32
			}
		}
		return t(string(b))
	}
	return t(s)
}

var reservedish = map[string]bool{}

func (g *G) ident() string {
	g.n++
	p := g.R.Pick("a", "b", "Foo", "bar", "x", "Zed", "q_", "_w", "É", "n")
	return p + strconv.Itoa(g.n)
}

func (g *G) leaf(kind, val string) *Node {
	return &Node{Kind: kind, Val: val, HasVal: true, Parts: []interface{}{t(val)}, Prec: 100}
}

// sepList interleaves items with a separator token.
func sepList(items []*Node, sep string) []interface{} {
	var out []interface{}
	for i, it := range items {
		if i > 0 {
			out = append(out, t(sep))
		}
		out = append(out, it)
	}
	return out
}

func parts(xs ...interface{}) []interface{} {
	var out []interface{}
	for _, x := range xs {
		switch v := x.(type) {
		case []interface{}:
			out = append(out, v...)
		case nil:
		case *Node:
			if v != nil {
				out = append(out, v)
			}
		default:
			out = append(out, v)
		}
	}
	return out
}

// ---------------------------------------------------------------------------------------------
// names, variables, scalars

func (g *G) identifier(s string) *Node { return g.leaf("Identifier", s) }

func (g *G) simpleVar() *Node {
	name := "$" + g.ident()
	if g.R.Chance(1, 12) {
		name = "$this"
	}
	return &Node{Kind: "ExprVariable", Kids: []Kid{one("Name", g.identifier(name))}, Parts: parts(g.identifier(name)), Prec: 100}
}

func (g *G) varNamed(name string) *Node {
	id := g.identifier(name)
	return &Node{Kind: "ExprVariable", Kids: []Kid{one("Name", id)}, Parts: parts(id), Prec: 100}
}

// name: Name / NameFullyQualified / NameRelative with 1..3 parts.
func (g *G) name(allowQualified bool) *Node {
	n := 1
	if allowQualified && g.R.Chance(1, 3) {
		n = g.R.Range(2, 3)
	}
	var ps []*Node
	for i := 0; i < n; i++ {
		ps = append(ps, g.leaf("NamePart", g.ident()))
	}
	body := sepList(ps, "\\")
	// name parts and separators may not be separated by trivia in PHP 8, but in PHP 5/7 they are
	// separate tokens; keep them adjacent, which every version accepts
	for i := range body {
		if i > 0 {
			switch v := body[i].(type) {
			case Tok:
				v.Gap = GapNone
				body[i] = v
			case *Node:
				c := *v
				c.Parts = []interface{}{tn(v.Val)}
				body[i] = &c
			}
		}
	}
	switch k := g.R.Intn(10); {
	case allowQualified && k == 0:
		return &Node{Kind: "NameFullyQualified", Kids: []Kid{list("Parts", ps)}, Parts: parts(t("\\"), glue(body)), Prec: 100}
	case allowQualified && k == 1:
		return &Node{Kind: "NameRelative", Kids: []Kid{list("Parts", ps)}, Parts: parts(g.kw("namespace"), tn("\\"), glue(body)), Prec: 100}
	}
	return &Node{Kind: "Name", Kids: []Kid{list("Parts", ps)}, Parts: body, Prec: 100}
}

// glue makes the first token of body adjacent to what precedes it.
func glue(body []interface{}) []interface{} {
	if len(body) == 0 {
		return body
	}
	out := append([]interface{}{}, body...)
	switch v := out[0].(type) {
	case Tok:
		v.Gap = GapNone
		out[0] = v
	case *Node:
		c := *v
		c.Parts = glue(v.Parts)
		out[0] = &c
	}
	return out
}

func (g *G) number() *Node {
	switch g.R.Intn(12) {
	case 0:
		return g.leaf("ScalarLnumber", "0")
	case 1:
		return g.leaf("ScalarLnumber", "0x"+g.R.Pick("1F", "ff", "0", "7fffffffffffffff"))
	case 2:
		return g.leaf("ScalarLnumber", g.R.Pick("017", "0b101", "0b1", "0x1a", "1_000", "0x1_F"))
	case 3:
		return g.leaf("ScalarDnumber", g.R.Pick("1.5", ".5", "1.", "1e3", "1E-3", "1.5e+3", "0.0", "1_0.2_5"))
	case 4:
		return g.leaf("ScalarDnumber", g.R.Pick("9223372036854775808", "0xFFFFFFFFFFFFFFFF", "01000000000000000000000", "0b1111111111111111111111111111111111111111111111111111111111111111"))
	case 5:
		return g.leaf("ScalarLnumber", "9223372036854775807")
	case 6:
		// one digit string under several radix prefixes: whether it still is an integer depends on the radix
		// (the expectation is computed with math/big: an integer literal above 2^63-1 is a float literal)
		n := g.R.Range(1, 24)
		if g.R.Chance(1, 4) {
			n = g.R.Range(15, 70)
		}
		var d string
		switch g.R.Intn(4) {
		case 0:
			d = "1" + strings.Repeat("0", n-1)
		case 1:
			d = strings.Repeat("1", n)
		case 2:
			d = strings.Repeat(g.R.Pick("7", "1", "3", "5"), n)
		default:
			d = strings.Repeat(g.R.Pick("9", "8", "9", "2"), n)
		}
		base, prefix := 10, ""
		switch g.R.Intn(4) {
		case 0:
			base, prefix = 16, "0x"
		case 1:
			if strings.Trim(d, "01") == "" {
				base, prefix = 2, "0b"
			}
		case 2:
			if strings.Trim(d, "01234567") == "" {
				base, prefix = 8, "0"
			}
		}
		v, ok := new(big.Int).SetString(d, base)
		if !ok {
			return g.leaf("ScalarLnumber", "7")
		}
		kind := "ScalarLnumber"
		if v.Cmp(big.NewInt(math.MaxInt64)) > 0 {
			kind = "ScalarDnumber"
		}
		return g.leaf(kind, prefix+d)
	}
	return g.leaf("ScalarLnumber", strconv.Itoa(g.R.Intn(1000)))
}

func (g *G) plainString() *Node {
	body := g.R.Pick("", "abc", "a b", "it\\'s", "a\\\\", "$notvar", "{x}", "line1\nline2", "tab\there", "ü", "<?php", "?>", "/* c */", "// c", "#", "a\r\nb", "\\n")
	switch g.R.Intn(4) {
	case 0:
		// double quoted without interpolation
		b := strings.NewReplacer("$", "\\$", "{", "{ ", "\\'", "'").Replace(body)
		return g.leaf("ScalarString", "\""+b+"\"")
	case 1:
		// (b'...' and b"...$var..." are rejected by the scanner: known finding C03-binary-prefix; not generated here)
	}
	return g.leaf("ScalarString", "'"+body+"'")
}

func (g *G) magic() *Node {
	m := g.R.Pick("__CLASS__", "__DIR__", "__FILE__", "__FUNCTION__", "__LINE__", "__NAMESPACE__", "__METHOD__", "__TRAIT__")
	if g.R.Chance(1, 3) {
		m = strings.ToLower(m)
	}
	return g.leaf("ScalarMagicConstant", m)
}

func (g *G) constFetch() *Node {
	var nm *Node
	if g.R.Chance(1, 3) {
		id := g.leaf("NamePart", g.R.Pick("true", "FALSE", "null", "Null", "TRUE"))
		nm = &Node{Kind: "Name", Kids: []Kid{list("Parts", []*Node{id})}, Parts: parts(id), Prec: 100}
	} else {
		nm = g.name(true)
	}
	return &Node{Kind: "ExprConstFetch", Kids: []Kid{one("Const", nm)}, Parts: parts(nm), Prec: 100}
}

// ---------------------------------------------------------------------------------------------
// interpolated strings

func (g *G) strPartText(quote byte) string {
	s := g.R.Pick("a", " b ", "x-y", "1", " ", ". ", "é", "\\n", "\\\\", "\\$", "{ ", "$ ", "a{ ", "[0]", "->", "# // /*", "<?php ", "'", "a\nb", "a\r\nb", "?>", "x ?>", "<?xml version=1?>", "<?= ", "*/ ?>")
	if quote == '"' {
		s = strings.ReplaceAll(s, "\"", "\\\"")
		if g.R.Chance(1, 10) {
			s += "\\\""
		}
	}
	if quote == '`' {
		s = strings.ReplaceAll(s, "`", "\\`")
		if g.R.Chance(1, 10) {
			s += "\\`"
		}
	}
	if g.R.Chance(1, 14) && quote != 0 {
		s += "\\\\\\" + string(quote) // escaped backslash followed by escaped quote
	}
	return s
}

// encapsVar: one interpolated variable form; returns the node and whether a following
// text part must not start with characters that would extend it.
func (g *G) encapsVar(depth int) *Node {
	v := g.varNamed("$" + g.ident())
	vAdj := func() *Node { c := *v; c.Parts = glueAll(v.Parts); return &c }
	switch g.R.Intn(9) {
	case 0: // $a[0] / $a[name] / $a[$b] / $a[-1]
		var dim *Node
		dk := g.R.Intn(4)
		if dk == 3 && !g.php7() {
			dk = 0
		}
		switch dk {
		case 0:
			dim = g.leaf("ScalarLnumber", strconv.Itoa(g.R.Intn(90)))
			if g.R.Chance(1, 4) {
				// non-decimal offsets are string keys in PHP ("$a[0x1F]" reads key "0x1F")
				dim = g.leaf("ScalarString", g.R.Pick("0x1F", "0b11", "0xff"))
			} else if g.O.Common && g.R.Chance(1, 3) {
				// leading zeros: only compared between the grammars (C10), no expectation attached
				dim = g.leaf("ScalarLnumber", g.R.Pick("08", "09", "010", "007"))
			}
		case 1:
			dim = g.leaf("ScalarString", g.ident())
		case 2:
			dim = g.varNamed("$" + g.ident())
		default:
			if g.R.Chance(1, 3) {
				// a negative offset that is not a decimal integer is a string key: "$a[-0x1A]"
				d := g.R.Pick("0x1A", "0b11", "99999999999999999999")
				dim = &Node{Kind: "ScalarString", Val: "-" + d, HasVal: true, Parts: []interface{}{tn("-"), tn(d)}, Prec: 100}
				break
			}
			num := g.leaf("ScalarLnumber", strconv.Itoa(1+g.R.Intn(9)))
			num.Parts = []interface{}{tn(num.Val)}
			dim = &Node{Kind: "ExprUnaryMinus", Kids: []Kid{one("Expr", num)}, Parts: parts(tn("-"), num)}
		}
		dim.Parts = glueAll(dim.Parts)
		return &Node{Kind: "ExprArrayDimFetch", Kids: []Kid{one("Var", v), one("Dim", dim)}, Parts: parts(vAdj(), tn("["), dim, tn("]"))}
	case 1: // $a->b
		id := g.identifier(g.ident())
		id.Parts = []interface{}{tn(id.Val)}
		return &Node{Kind: "ExprPropertyFetch", Kids: []Kid{one("Var", v), one("Prop", id)}, Parts: parts(vAdj(), tn("->"), id)}
	case 2: // ${name}
		id := g.identifier(g.ident())
		id.Parts = []interface{}{tn(id.Val)}
		return &Node{Kind: "ScalarEncapsedStringVar", Kids: []Kid{one("Name", id)}, Parts: parts(tn("${"), id, tn("}"))}
	case 3: // ${name[expr]}
		id := g.identifier(g.ident())
		id.Parts = []interface{}{tn(id.Val)}
		dim := g.exprTop(depth + 2)
		return &Node{Kind: "ScalarEncapsedStringVar", Kids: []Kid{one("Name", id), one("Dim", dim)}, Parts: parts(tn("${"), id, tn("["), dim, t("]"), t("}"))}
	case 4: // ${expr}
		e := g.exprNoName(depth + 2)
		return &Node{Kind: "ScalarEncapsedStringVar", Kids: []Kid{one("Name", e)}, Parts: parts(tn("${"), e, t("}"))}
	case 5, 6: // {$var-expression}: the '$' must follow the '{' immediately
		g.dollarFirst++
		e := g.varExpr(depth+2, false)
		g.dollarFirst--
		e2 := *e
		e2.Parts = glue(e.Parts)
		return &Node{Kind: "ScalarEncapsedStringBrackets", Kids: []Kid{one("Var", e)}, Parts: parts(tn("{"), &e2, t("}"))}
	}
	return vAdj()
}

// markStr marks every token below ps as lying inside a string.
func markStr(ps []interface{}) []interface{} {
	out := make([]interface{}, len(ps))
	for i, p := range ps {
		switch v := p.(type) {
		case Tok:
			v.Str = true
			out[i] = v
		case *Node:
			c := *v
			c.Parts = markStr(v.Parts)
			out[i] = &c
		default:
			out[i] = p
		}
	}
	return out
}

func glueAll(ps []interface{}) []interface{} {
	out := make([]interface{}, len(ps))
	for i, p := range ps {
		switch v := p.(type) {
		case Tok:
			v.Gap = GapNone
			out[i] = v
		case *Node:
			c := *v
			c.Parts = glueAll(v.Parts)
			out[i] = &c
		}
	}
	return out
}

// encapsParts builds alternating text / variable parts. A text part after a simple
// variable form starts with a character that cannot extend the variable.
func (g *G) encapsParts(depth int, quote byte, lineMode bool) ([]*Node, []interface{}) {
	var ns []*Node
	var ps []interface{}
	n := g.R.Range(1, 4)
	hasVar := false
	prevVar := false
	for i := 0; i < n || !hasVar; i++ {
		if !prevVar && (g.R.Bool() || i >= n) || (prevVar && g.R.Chance(1, 3)) {
			v := g.encapsVar(depth)
			vv := *v
			vv.Parts = glue(v.Parts)
			ns = append(ns, v)
			ps = append(ps, &vv)
			hasVar = true
			prevVar = true
			continue
		}
		s := g.strPartText(quote)
		if prevVar {
			// must not continue the variable: no name chars, '[', '-' (->) at the start
			s = " " + s
		}
		if lineMode {
			s = strings.ReplaceAll(strings.ReplaceAll(s, "\r\n", " "), "\n", " ")
		}
		// merge with a preceding text part
		if len(ns) > 0 && ns[len(ns)-1].Kind == "ScalarEncapsedStringPart" {
			last := ns[len(ns)-1]
			last.Val += s
			last.Parts = []interface{}{tn(last.Val)}
			prevVar = false
			continue
		}
		p := &Node{Kind: "ScalarEncapsedStringPart", Val: s, HasVal: true, Parts: []interface{}{tn(s)}}
		ns = append(ns, p)
		ps = append(ps, p)
		prevVar = false
	}
	return ns, ps
}

func (g *G) encapsed(depth int) *Node {
	ns, ps := g.encapsParts(depth, '"', false)
	open := "\""

	return &Node{Kind: "ScalarEncapsed", Kids: []Kid{list("Parts", ns)}, Parts: parts(t(open), markStr(ps), tn("\"")), Prec: 100}
}

func (g *G) shellExec(depth int) *Node {
	if g.R.Chance(1, 10) && !g.O.Formatter {
		return &Node{Kind: "ExprShellExec", Kids: []Kid{list("Parts", nil)}, Parts: parts(t("`"), tn("`")), Prec: 100}
	}
	if g.R.Chance(1, 4) {
		p := &Node{Kind: "ScalarEncapsedStringPart", Val: "ls -l", HasVal: true, Parts: []interface{}{tn("ls -l")}}
		return &Node{Kind: "ExprShellExec", Kids: []Kid{list("Parts", []*Node{p})}, Parts: parts(t("`"), p, tn("`")), Prec: 100}
	}
	ns, ps := g.encapsParts(depth, '`', false)
	return &Node{Kind: "ExprShellExec", Kids: []Kid{list("Parts", ns)}, Parts: parts(t("`"), markStr(ps), tn("`")), Prec: 100}
}

// heredoc builds a heredoc/nowdoc expression. The closing label (classic form) must be
// followed by ';' and a line terminator, which the statement builder guarantees
// (Node.Flags carries heredocTail so that the caller knows).
func (g *G) heredoc(depth int) *Node {
	// the lexer keeps a single heredoc label: a heredoc nested in the interpolation of another one
	// makes the outer one unterminated (known finding C03-nested-heredoc), so none is generated here
	g.inHeredoc++
	defer func() { g.inHeredoc-- }()
	g.labels++
	label := g.R.Pick("EOT", "A", "_L", "HTML") + strconv.Itoa(g.labels)
	nl := g.R.Pick("\n", "\n", "\r\n")
	flex := g.O.Flex73 && g.R.Chance(1, 2)
	indent := ""
	if flex {
		indent = g.R.Pick("  ", "\t", " ")
	}
	kind := g.R.Intn(4)
	if g.O.Formatter && kind == 0 {
		kind = 2 // the formatter turns a nowdoc into a heredoc (recorded finding)
	}
	var ns []*Node
	var ps []interface{}
	openTxt := "<<<" + OptHB + label + nl
	switch kind {
	case 0: // nowdoc
		openTxt = "<<<" + OptHB + "'" + label + "'" + nl
		body := indent + g.R.Pick("raw $text {$here}", "x", "a\\b", "") + nl
		if g.R.Chance(1, 3) {
			body += indent + "second line" + nl
		}
		p := &Node{Kind: "ScalarEncapsedStringPart", Val: body, HasVal: true, Parts: []interface{}{tn(body)}}
		ns, ps = []*Node{p}, []interface{}{p}
	default:
		if kind == 1 {
			openTxt = "<<<" + OptHB + "\"" + label + "\"" + nl
		}
		if g.R.Chance(1, 3) {
			body := indent + g.R.Pick("plain text", "two\\nwords", "a 'q' \"dq\"") + nl
			p := &Node{Kind: "ScalarEncapsedStringPart", Val: body, HasVal: true, Parts: []interface{}{tn(body)}}
			ns, ps = []*Node{p}, []interface{}{p}
		} else {
			ns, ps = g.encapsParts(depth, 0, true)
			// first line indentation and final line terminator belong to the text parts
			if indent != "" {
				if ns[0].Kind == "ScalarEncapsedStringPart" {
					ns[0].Val = indent + ns[0].Val
					ns[0].Parts = []interface{}{tn(ns[0].Val)}
				} else {
					p := &Node{Kind: "ScalarEncapsedStringPart", Val: indent, HasVal: true, Parts: []interface{}{tn(indent)}}
					ns = append([]*Node{p}, ns...)
					ps = append([]interface{}{p}, ps...)
				}
			}
			last := ns[len(ns)-1]
			if last.Kind == "ScalarEncapsedStringPart" {
				last.Val += nl
				last.Parts = []interface{}{tn(last.Val)}
			} else {
				p := &Node{Kind: "ScalarEncapsedStringPart", Val: nl, HasVal: true, Parts: []interface{}{tn(nl)}}
				ns = append(ns, p)
				ps = append(ps, p)
			}
		}
	}
	if g.R.Chance(1, 4) {
		// a body line that starts with the label followed by a label character is not the terminator
		pre := indent + label + g.R.Pick("2", "x", "_", "9 ", "É") + g.R.Pick("", " y", ";") + nl
		if ns[0].Kind == "ScalarEncapsedStringPart" {
			ns[0].Val = pre + ns[0].Val
			ns[0].Parts = []interface{}{tn(ns[0].Val)}
		} else {
			p := &Node{Kind: "ScalarEncapsedStringPart", Val: pre, HasVal: true, Parts: []interface{}{tn(pre)}}
			ns = append([]*Node{p}, ns...)
			ps = append([]interface{}{p}, ps...)
		}
	}
	if g.R.Chance(1, 8) {
		openTxt = g.R.Pick("b", "B") + openTxt // the binary-string prefix is part of the opener
	}
	if indent != "" {
		// the indentation of the closing line is part of the last text part in this AST
		last := ns[len(ns)-1]
		last.Val += indent
		last.Parts = []interface{}{tn(last.Val)}
	}
	n := &Node{Kind: "ScalarHeredoc", Kids: []Kid{list("Parts", ns)}, Parts: parts(t(openTxt), markStr(ps), tn(label)), Prec: 100}
	if flex || g.O.Formatter {
		n.Flags |= FFlex73
	}
	return n
}

// ---------------------------------------------------------------------------------------------
// expressions

type binop struct {
	kind, op string
	prec     int
	assoc    byte // 'l', 'r', 'n'
	php7     bool
	word     bool
}

var binops = []binop{
	{"ExprBinaryLogicalOr", "or", 3, 'l', false, true}, {"ExprBinaryLogicalXor", "xor", 4, 'l', false, true}, {"ExprBinaryLogicalAnd", "and", 5, 'l', false, true},
	{"ExprBinaryCoalesce", "??", 12, 'r', true, false},
	{"ExprBinaryBooleanOr", "||", 13, 'l', false, false}, {"ExprBinaryBooleanAnd", "&&", 14, 'l', false, false},
	{"ExprBinaryBitwiseOr", "|", 15, 'l', false, false}, {"ExprBinaryBitwiseXor", "^", 16, 'l', false, false}, {"ExprBinaryBitwiseAnd", "&", 17, 'l', false, false},
	{"ExprBinaryEqual", "==", 18, 'n', false, false}, {"ExprBinaryNotEqual", "!=", 18, 'n', false, false}, {"ExprBinaryNotEqual", "<>", 18, 'n', false, false},
	{"ExprBinaryIdentical", "===", 18, 'n', false, false}, {"ExprBinaryNotIdentical", "!==", 18, 'n', false, false}, {"ExprBinarySpaceship", "<=>", 18, 'n', true, false},
	{"ExprBinarySmaller", "<", 19, 'n', false, false}, {"ExprBinarySmallerOrEqual", "<=", 19, 'n', false, false}, {"ExprBinaryGreater", ">", 19, 'n', false, false}, {"ExprBinaryGreaterOrEqual", ">=", 19, 'n', false, false},
	{"ExprBinaryShiftLeft", "<<", 20, 'l', false, false}, {"ExprBinaryShiftRight", ">>", 20, 'l', false, false},
	{"ExprBinaryPlus", "+", 21, 'l', false, false}, {"ExprBinaryMinus", "-", 21, 'l', false, false}, {"ExprBinaryConcat", ".", 21, 'l', false, false},
	{"ExprBinaryMul", "*", 22, 'l', false, false}, {"ExprBinaryDiv", "/", 22, 'l', false, false}, {"ExprBinaryMod", "%", 22, 'l', false, false},
	{"ExprBinaryPow", "**", 26, 'r', false, false},
}

type assignop struct {
	kind, op string
	php7     bool
}

var assignops = []assignop{
	{"ExprAssign", "=", false}, {"ExprAssignPlus", "+=", false}, {"ExprAssignMinus", "-=", false}, {"ExprAssignMul", "*=", false}, {"ExprAssignDiv", "/=", false},
	{"ExprAssignConcat", ".=", false}, {"ExprAssignMod", "%=", false}, {"ExprAssignBitwiseAnd", "&=", false}, {"ExprAssignBitwiseOr", "|=", false}, {"ExprAssignBitwiseXor", "^=", false},
	{"ExprAssignShiftLeft", "<<=", false}, {"ExprAssignShiftRight", ">>=", false}, {"ExprAssignPow", "**=", false}, {"ExprAssignCoalesce", "??=", true},
}

type unop struct {
	kind, op string
	prec     int
	role     string
}

var unops = []unop{
	{"ExprBooleanNot", "!", 23, "Expr"}, {"ExprBitwiseNot", "~", 25, "Expr"}, {"ExprUnaryMinus", "-", 25, "Expr"}, {"ExprUnaryPlus", "+", 25, "Expr"}, {"ExprErrorSuppress", "@", 25, "Expr"},
}

var casts = []struct {
	kind  string
	words []string
}{
	{"ExprCastArray", []string{"array"}}, {"ExprCastBool", []string{"bool", "boolean"}}, {"ExprCastDouble", []string{"double", "float", "real"}},
	{"ExprCastInt", []string{"int", "integer"}}, {"ExprCastObject", []string{"object"}}, {"ExprCastString", []string{"string", "binary"}}, {"ExprCastUnset", []string{"unset"}},
}

const (
	precAssign  = 10
	precTernary = 11
	precInst    = 24
	precUnary   = 25
	precNew     = 28
)

// brackets wraps e in parentheses (an ExprBrackets node).
func (g *G) brackets(e *Node) *Node {
	return &Node{Kind: "ExprBrackets", Kids: []Kid{one("Expr", e)}, Parts: parts(t("("), e, t(")")), Prec: 100}
}

// fit returns e, parenthesised when its precedence does not allow it in a slot that
// requires at least min (strict: more than min). rightOpen tells that nothing follows
// the slot inside the enclosing expression, so a prefix form may stay unparenthesised.
func (g *G) fit(e *Node, min int, strict bool, rightOpen bool, parent string) *Node {
	need := e.Prec < min || (strict && e.Prec == min)
	if need && e.Prefix && rightOpen && g.R.Chance(2, 3) {
		need = false
		g.Ops["swallow:"+parent+">"+e.Kind]++
	}
	if !need && g.R.Chance(1, 25) {
		need = true // redundant parentheses are nodes too
	}
	if e.Prec < 100 {
		g.Ops[parent+">"+e.Kind]++
	}
	if need {
		return g.brackets(e)
	}
	return e
}

// exprTop: a full expression whose right end is closed by a delimiter.
func (g *G) exprTop(depth int) *Node { return g.expr(depth, true) }

// exprNoName: an expression that does not start with a bare name (for ${expr}).
func (g *G) exprNoName(depth int) *Node {
	g.dollarFirst++
	defer func() { g.dollarFirst-- }()
	return g.varExpr(depth, false)
}

func (g *G) expr(depth int, rightOpen bool) *Node {
	if depth >= g.O.MaxDepth {
		return g.atom(depth)
	}
	switch k := g.R.Intn(100); {
	case k < 30:
		return g.binary(depth, rightOpen)
	case k < 38:
		return g.unary(depth, rightOpen)
	case k < 46:
		return g.assign(depth, rightOpen)
	case k < 51:
		return g.ternary(depth, rightOpen)
	case k < 55:
		return g.castExpr(depth, rightOpen)
	case k < 58:
		return g.instanceOf(depth)
	case k < 62:
		return g.incDec(depth)
	case k < 66:
		return g.lowPrefix(depth, rightOpen)
	case k < 80:
		return g.varExpr(depth, true)
	default:
		return g.atom(depth)
	}
}

func (g *G) pickBinop() binop {
	for {
		b := binops[g.R.Intn(len(binops))]
		if b.php7 && !g.php7() {
			continue
		}
		return b
	}
}

func (g *G) binary(depth int, rightOpen bool) *Node {
	b := g.pickBinop()
	l := g.fit(g.expr(depth+1, false), b.prec, b.assoc != 'l', false, b.kind+".L")
	r := g.fit(g.expr(depth+1, rightOpen), b.prec, b.assoc != 'r', rightOpen, b.kind+".R")
	op := t(b.op)
	if b.word {
		op = g.kw(b.op)
	}
	return &Node{Kind: b.kind, Kids: []Kid{one("Left", l), one("Right", r)}, Parts: parts(l, op, r), Prec: b.prec}
}

func (g *G) unary(depth int, rightOpen bool) *Node {
	u := unops[g.R.Intn(len(unops))]
	e := g.fit(g.expr(depth+1, rightOpen), u.prec, false, rightOpen, u.kind)
	if g.O.Formatter && (u.op == "+" || u.op == "-") {
		if ts := e.Tokens(); len(ts) > 0 && len(ts[0].S) > 0 && (ts[0].S[0] == '+' || ts[0].S[0] == '-') {
			e = g.brackets(e) // the formatter glues "+ ++$a" into "+++$a" (recorded finding)
		}
	}
	return &Node{Kind: u.kind, Kids: []Kid{one(u.role, e)}, Parts: parts(t(u.op), e), Prec: u.prec, Prefix: true}
}

func (g *G) castExpr(depth int, rightOpen bool) *Node {
	c := casts[g.R.Intn(len(casts))]
	w := c.words[g.R.Intn(len(c.words))]
	if g.R.Bool() {
		w = strings.ToUpper(w[:1]) + w[1:]
	}
	txt := "(" + OptHB + w + OptHB + ")"
	e := g.fit(g.expr(depth+1, rightOpen), precUnary, false, rightOpen, c.kind)
	return &Node{Kind: c.kind, Kids: []Kid{one("Expr", e)}, Parts: parts(t(txt), e), Prec: precUnary, Prefix: true}
}

func (g *G) assign(depth int, rightOpen bool) *Node {
	var a assignop
	for {
		a = assignops[g.R.Intn(len(assignops))]
		if !a.php7 || g.php7() {
			break
		}
	}
	v := g.varExpr(depth+1, false)
	if a.kind == "ExprAssign" && g.R.Chance(1, 6) {
		// by reference: $a = &$b; PHP 5 also has $a = & new X(...)
		r := g.varExpr(depth+1, false)
		if g.O.Fam == 5 && !g.O.Common && !g.O.Formatter && g.R.Chance(1, 4) {
			r = g.newExpr(depth + 1)
		}
		return &Node{Kind: "ExprAssignReference", Kids: []Kid{one("Var", v), one("Expr", r)}, Parts: parts(v, t("="), t("&"), r), Prec: precAssign, Prefix: true}
	}
	if a.kind == "ExprAssign" && g.R.Chance(1, 6) {
		v = g.listTarget(depth+1, true)
	}
	e := g.fit(g.expr(depth+1, rightOpen), precAssign, false, rightOpen, a.kind)
	return &Node{Kind: a.kind, Kids: []Kid{one("Var", v), one("Expr", e)}, Parts: parts(v, t(a.op), e), Prec: precAssign, Prefix: true}
}

func (g *G) ternary(depth int, rightOpen bool) *Node {
	c := g.fit(g.expr(depth+1, false), precTernary, false, false, "ExprTernary.Cond")
	f := g.fit(g.expr(depth+1, rightOpen), precTernary, true, rightOpen, "ExprTernary.IfFalse")
	if g.R.Chance(1, 3) {
		return &Node{Kind: "ExprTernary", Kids: []Kid{one("Cond", c), one("IfFalse", f)}, Parts: parts(c, t("?"), t(":"), f), Prec: precTernary}
	}
	m := g.fit(g.expr(depth+1, true), precAssign, false, true, "ExprTernary.IfTrue")
	return &Node{Kind: "ExprTernary", Kids: []Kid{one("Cond", c), one("IfTrue", m), one("IfFalse", f)}, Parts: parts(c, t("?"), m, t(":"), f), Prec: precTernary}
}

func (g *G) classRef(depth int) *Node {
	switch g.R.Intn(4) {
	case 0:
		return g.simpleVar()
	case 1:
		return g.identifier(g.R.Pick("static", "STATIC", "Static"))
	}
	return g.name(true)
}

func (g *G) instanceOf(depth int) *Node {
	l := g.fit(g.expr(depth+1, false), precInst, true, false, "ExprInstanceOf")
	var cls *Node
	if g.R.Chance(1, 3) {
		cls = g.simpleVar()
	} else {
		cls = g.name(true)
	}
	return &Node{Kind: "ExprInstanceOf", Kids: []Kid{one("Expr", l), one("Class", cls)}, Parts: parts(l, g.kw("instanceof"), cls), Prec: precInst}
}

func (g *G) incDec(depth int) *Node {
	v := g.varExpr(depth+1, false)
	switch g.R.Intn(4) {
	case 0:
		return &Node{Kind: "ExprPreInc", Kids: []Kid{one("Var", v)}, Parts: parts(t("++"), v), Prec: precUnary, Prefix: true}
	case 1:
		return &Node{Kind: "ExprPreDec", Kids: []Kid{one("Var", v)}, Parts: parts(t("--"), v), Prec: precUnary, Prefix: true}
	case 2:
		return &Node{Kind: "ExprPostInc", Kids: []Kid{one("Var", v)}, Parts: parts(v, t("++")), Prec: 100}
	}
	return &Node{Kind: "ExprPostDec", Kids: []Kid{one("Var", v)}, Parts: parts(v, t("--")), Prec: 100}
}

// lowPrefix: print, include family, yield, clone, new, exit, eval...
func (g *G) lowPrefix(depth int, rightOpen bool) *Node {
	switch g.R.Intn(9) {
	case 0:
		e := g.fit(g.expr(depth+1, rightOpen), 6, false, rightOpen, "ExprPrint")
		return &Node{Kind: "ExprPrint", Kids: []Kid{one("Expr", e)}, Parts: parts(g.kw("print"), e), Prec: 6, Prefix: true}
	case 1:
		inc := []struct{ kind, kw string }{{"ExprInclude", "include"}, {"ExprIncludeOnce", "include_once"}, {"ExprRequire", "require"}, {"ExprRequireOnce", "require_once"}}[g.R.Intn(4)]
		e := g.fit(g.expr(depth+1, rightOpen), 1, false, rightOpen, inc.kind)
		return &Node{Kind: inc.kind, Kids: []Kid{one("Expr", e)}, Parts: parts(g.kw(inc.kw), e), Prec: 1, Prefix: true}
	case 2:
		return g.yield(depth, rightOpen)
	case 3:
		v := g.fit(g.varExpr(depth+1, true), precNew, false, false, "ExprClone")
		return &Node{Kind: "ExprClone", Kids: []Kid{one("Expr", v)}, Parts: parts(g.kw("clone"), v), Prec: precNew, Prefix: true}
	case 4:
		return g.newExpr(depth)
	case 5:
		kwd := g.R.Pick("exit", "die")
		if g.R.Bool() {
			return &Node{Kind: "ExprExit", Parts: parts(g.kw(kwd)), Prec: 100}
		}
		if g.R.Bool() {
			return &Node{Kind: "ExprExit", Parts: parts(g.kw(kwd), t("("), t(")")), Prec: 100}
		}
		e := g.exprTop(depth + 1)
		return &Node{Kind: "ExprExit", Kids: []Kid{one("Expr", e)}, Parts: parts(g.kw(kwd), t("("), e, t(")")), Prec: 100}
	case 6:
		e := g.exprTop(depth + 1)
		return &Node{Kind: "ExprEval", Kids: []Kid{one("Expr", e)}, Parts: parts(g.kw("eval"), t("("), e, t(")")), Prec: 100}
	case 7:
		e := g.exprTop(depth + 1)
		return &Node{Kind: "ExprEmpty", Kids: []Kid{one("Expr", e)}, Parts: parts(g.kw("empty"), t("("), e, t(")")), Prec: 100}
	}
	var vs []*Node
	for i, n := 0, g.R.Range(1, 3); i < n; i++ {
		vs = append(vs, g.varExpr(depth+1, false))
	}
	ps := parts(g.kw("isset"), t("("), sepList(vs, ","))
	if g.php7() && g.R.Chance(1, 4) {
		ps = append(ps, t(",")) // trailing comma (7.3 syntax, accepted by the PHP 7 grammar)
	}
	return &Node{Kind: "ExprIsset", Kids: []Kid{list("Vars", vs)}, Parts: parts(ps, t(")")), Prec: 100}
}

func (g *G) yield(depth int, rightOpen bool) *Node {
	if !g.php7() {
		// PHP 5: yield as an operand must be parenthesised; generate the parenthesised form
		v := g.fit(g.expr(depth+1, true), precAssign, false, true, "ExprYield")
		y := &Node{Kind: "ExprYield", Kids: []Kid{one("Val", v)}, Parts: parts(g.kw("yield"), v), Prec: 7, Prefix: true}
		return g.brackets(y)
	}
	yk := g.R.Intn(4)
	if g.O.Formatter && yk == 0 {
		yk = 3
	}
	switch yk {
	case 0:
		y := &Node{Kind: "ExprYield", Parts: parts(g.kw("yield")), Prec: 7, Prefix: true}
		return g.brackets(y) // a bare yield followed by an operator would take it as its operand
	case 1:
		k := g.fit(g.expr(depth+1, false), precAssign, false, false, "ExprYield.Key")
		v := g.fit(g.expr(depth+1, rightOpen), precAssign, false, rightOpen, "ExprYield.Val")
		return &Node{Kind: "ExprYield", Kids: []Kid{one("Key", k), one("Val", v)}, Parts: parts(g.kw("yield"), k, t("=>"), v), Prec: 7, Prefix: true}
	case 2:
		v := g.fit(g.expr(depth+1, rightOpen), precAssign, false, rightOpen, "ExprYieldFrom")
		txt := g.R.Pick("yield", "yield", "YIELD", "Yield") + ReqWS + g.R.Pick("from", "from", "FROM", "From")
		n := &Node{Kind: "ExprYieldFrom", Kids: []Kid{one("Expr", v)}, Parts: parts(t(txt), v), Prec: 9, Prefix: true, Flags: FPhp7Only}
		return n
	}
	v := g.fit(g.expr(depth+1, rightOpen), precAssign, false, rightOpen, "ExprYield.Val")
	return &Node{Kind: "ExprYield", Kids: []Kid{one("Val", v)}, Parts: parts(g.kw("yield"), v), Prec: 7, Prefix: true}
}

func (g *G) argument(depth int) *Node {
	e := g.exprTop(depth + 1)
	if g.R.Chance(1, 8) {
		return &Node{Kind: "Argument", Kids: []Kid{one("Expr", e)}, Parts: parts(t("..."), e)}
	}
	if g.R.Chance(1, 12) && g.O.Fam == 5 && !g.O.Common { // call-time pass-by-reference: PHP 5 grammar only
		v := g.simpleVar()
		return &Node{Kind: "Argument", Kids: []Kid{one("Expr", v)}, Parts: parts(t("&"), v)}
	}
	return &Node{Kind: "Argument", Kids: []Kid{one("Expr", e)}, Parts: parts(e)}
}

// args returns the argument nodes and the parenthesised parts.
func (g *G) args(depth int) ([]*Node, []interface{}) {
	var as []*Node
	for i, n := 0, g.R.Intn(4); i < n; i++ {
		as = append(as, g.argument(depth))
	}
	ps := parts(t("("), sepList(as, ","))
	if len(as) > 0 && g.php7() && g.R.Chance(1, 6) {
		ps = append(ps, t(","))
	}
	return as, append(ps, t(")"))
}

func (g *G) newExpr(depth int) *Node {
	if g.php7() && g.R.Chance(1, 4) && !g.O.Formatter {
		cls := g.classDecl(depth+1, true)
		return &Node{Kind: "ExprNew", Kids: []Kid{one("Class", cls)}, Parts: parts(g.kw("new"), cls), Prec: precNew, Prefix: true, Flags: FPhp7Only}
	}
	var cls *Node
	ck := g.R.Intn(6)
	if ck == 5 && g.O.Common {
		ck = 0 // class-reference chains have recorded PHP5/PHP7 span divergences: not part of the common subset
	}
	switch ck {
	case 0:
		cls = g.simpleVar()
	case 5:
		// class reference chains: new $a->b, new $a->b[0], new $a{0}, new $a->{$e}, new $a::$b, new A::$b, new $a[0]->c
		cls = g.simpleVar()
		nameBase := false
		if g.R.Chance(1, 4) {
			// new A::$b ...: the chain starts at a static property of a named class
			cn := g.name(true)
			if g.R.Chance(1, 3) {
				cn = g.identifier(g.R.Pick("static", "Static"))
			}
			pv := g.simpleVarPlain()
			cls = &Node{Kind: "ExprStaticPropertyFetch", Kids: []Kid{one("Class", cn), one("Prop", pv)}, Parts: parts(cn, t("::"), pv), Prec: 100, Flags: FKnownDiff}
			nameBase = true
		}
		links := g.R.Range(1, 3) - b2i(nameBase)
		if nameBase && g.O.Fam == 5 {
			links = 0 // the PHP 5 grammar attaches what follows a static member to the member (A::$b[0] is A::${b[0]})
		}
		for i, n := 0, links; i < n; i++ {
			switch g.R.Intn(3) {
			case 0:
				if g.R.Chance(1, 4) && !g.O.Formatter {
					e := g.exprTop(depth + 2)
					cls = &Node{Kind: "ExprPropertyFetch", Kids: []Kid{one("Var", cls), one("Prop", e)}, Parts: parts(cls, t("->"), t("{"), e, t("}")), Prec: 100}
					continue
				}
				m := g.identifier(g.ident())
				cls = &Node{Kind: "ExprPropertyFetch", Kids: []Kid{one("Var", cls), one("Prop", m)}, Parts: parts(cls, t("->"), m), Prec: 100}
			case 1:
				d := g.exprTop(depth + 2)
				cls = g.dim(cls, d, true)
			default:
				if i == 0 && !nameBase && (g.O.Fam == 7 || n == 1) {
					pv := g.simpleVarPlain()
					cls = &Node{Kind: "ExprStaticPropertyFetch", Kids: []Kid{one("Class", cls), one("Prop", pv)}, Parts: parts(cls, t("::"), pv), Prec: 100, Flags: FKnownDiff}
				}
			}
		}
		cls.Flags |= FKnownDiff
	case 1:
		cls = g.identifier(g.R.Pick("static", "Static"))
	default:
		cls = g.name(true)
	}
	if g.R.Chance(1, 3) {
		return &Node{Kind: "ExprNew", Kids: []Kid{one("Class", cls)}, Parts: parts(g.kw("new"), cls), Prec: precNew, Prefix: true}
	}
	as, ps := g.args(depth)
	return &Node{Kind: "ExprNew", Kids: []Kid{one("Class", cls), list("Args", as)}, Parts: parts(g.kw("new"), cls, ps), Prec: precNew, Prefix: true}
}

// ReservedNonModifiers: the words PHP 7 admits as identifiers (method, class-constant and trait-alias names,
// names after '::'); SemiReserved adds the member modifiers. After '->' every label is a name in both families.
var ReservedNonModifiers = []string{"include", "include_once", "eval", "require", "require_once", "or", "xor", "and",
	"instanceof", "new", "clone", "exit", "die", "if", "elseif", "else", "endif", "echo", "do", "while", "endwhile",
	"for", "endfor", "foreach", "endforeach", "declare", "enddeclare", "as", "try", "catch", "finally",
	"throw", "use", "insteadof", "global", "var", "unset", "isset", "empty", "continue", "goto",
	"function", "const", "return", "print", "yield", "list", "switch", "endswitch", "case", "default", "break",
	"array", "callable", "extends", "implements", "namespace", "trait", "interface", "class",
	"__CLASS__", "__TRAIT__", "__FUNCTION__", "__METHOD__", "__LINE__", "__FILE__", "__DIR__", "__NAMESPACE__", "fn"}

var MemberModifiers = []string{"static", "abstract", "final", "private", "protected", "public"}

// reservedWord picks a reserved word in PRNG letter case (the value of the identifier is the spelling used).
func (g *G) reservedWord(modifiersToo bool) string {
	pool := ReservedNonModifiers
	if modifiersToo && g.R.Chance(1, 8) {
		pool = MemberModifiers
	}
	w := pool[g.R.Intn(len(pool))]
	switch g.R.Intn(4) {
	case 0:
		w = strings.ToUpper(w)
	case 1:
		w = strings.ToUpper(w[:1]) + w[1:]
	}
	return w
}

// memberName: identifier after -> or ::, possibly a reserved word.
func (g *G) memberName() (*Node, int) { return g.memberNameFor(false) }

func (g *G) memberNameFor(static bool) (*Node, int) {
	if g.R.Chance(1, 6) && (!static || g.php7()) {
		w := g.reservedWord(true)
		if strings.EqualFold(w, "class") && static {
			w = "list" // A::class is the class-name constant, not a member
		}
		id := g.identifier(w)
		id.Parts = []interface{}{tg(w, GapBlank)}
		return id, GapBlank
	}
	return g.identifier(g.ident()), GapFree
}

// varExpr: variables and postfix chains (member access, calls, dimensions).
// call=true allows call results as the outermost form.
func (g *G) varExpr(depth int, call bool) *Node {
	var base *Node
	kk := g.R.Intn(12)
	if g.dollarFirst > 0 {
		kk = 11
		save := g.dollarFirst
		g.dollarFirst = 0
		defer func() { g.dollarFirst = save }()
	}
	switch k := kk; {
	case k == 0:
		// $$a, $$$a
		in := g.simpleVar()
		base = &Node{Kind: "ExprVariable", Kids: []Kid{one("Name", in)}, Parts: parts(t("$"), in), Prec: 100}
		for g.R.Chance(1, 4) {
			base = &Node{Kind: "ExprVariable", Kids: []Kid{one("Name", base)}, Parts: parts(t("$"), base), Prec: 100}
		}
		if g.O.Fam == 5 || g.O.Common {
			return base // PHP 5 applies the extra '$' to the whole reference that follows ($$a[0] is ${$a[0]})
		}
	case k == 1 && (!g.O.Formatter || g.php7()):
		// (formatter programs: PHP 7 only — without the braces PHP 5 reads "$$a[0]" as "${$a[0]}", a recorded finding)
		e := g.braceName(depth)
		base = &Node{Kind: "ExprVariable", Kids: []Kid{one("Name", e)}, Parts: parts(t("$"), t("{"), e, t("}")), Prec: 100}
	case k == 2 && depth < g.O.MaxDepth:
		// static property A::$b
		cls := g.classRef(depth)
		base = &Node{Kind: "ExprStaticPropertyFetch", Kids: []Kid{one("Class", cls), one("Prop", g.indirectVar(2))}, Prec: 100}
		base.Parts = parts(cls, t("::"), base.Kids[1].N)
		if g.O.Common || !g.php7() {
			return base // dimensions/calls after a static member regroup under uniform variable syntax
		}
	case k == 3 && depth < g.O.MaxDepth && call:
		// function call
		var fn *Node
		switch g.R.Intn(8) {
		case 0:
			fn = g.simpleVar()
		case 1:
			fn = g.indirectVar(2) // $f(), $$f(), $$$f()
		case 2:
			// $a[0]() / $a->b[0](): the callee is a variable expression ending in a dimension
			var v *Node
			if g.O.Fam == 5 {
				// PHP 5 allows a call on an element only for plain variable / property chains
				v = g.simpleVar()
				for i, n := 0, g.R.Intn(3); i < n; i++ {
					m := g.identifier(g.ident())
					v = &Node{Kind: "ExprPropertyFetch", Kids: []Kid{one("Var", v), one("Prop", m)}, Parts: parts(v, t("->"), m), Prec: 100}
				}
			} else {
				g.dollarFirst++
				v = g.varExpr(depth+1, false)
				g.dollarFirst--
			}
			d := g.exprTop(depth + 1)
			fn = &Node{Kind: "ExprArrayDimFetch", Kids: []Kid{one("Var", v), one("Dim", d)}, Parts: parts(v, t("["), d, t("]")), Prec: 100}
		default:
			fn = g.name(true)
		}
		as, ps := g.args(depth)
		base = &Node{Kind: "ExprFunctionCall", Kids: []Kid{one("Function", fn), list("Args", as)}, Parts: parts(fn, ps), Prec: 100}
	case k == 4 && depth < g.O.MaxDepth && call:
		// static call A::b()
		cls := g.classRef(depth)
		as, ps := g.args(depth)
		switch sk := g.R.Intn(8); {
		case sk == 0 && (!g.O.Formatter || g.php7()):
			// A::{expr}()
			e := g.braceName(depth)
			base = &Node{Kind: "ExprStaticCall", Kids: []Kid{one("Class", cls), one("Call", e), list("Args", as)}, Parts: parts(cls, t("::"), t("{"), e, t("}"), ps), Prec: 100}
		case sk == 1:
			// A::$m(), A::$$m()
			e := g.indirectVar(2)
			base = &Node{Kind: "ExprStaticCall", Kids: []Kid{one("Class", cls), one("Call", e), list("Args", as)}, Parts: parts(cls, t("::"), e, ps), Prec: 100}
		default:
			m, _ := g.memberNameFor(true)
			base = &Node{Kind: "ExprStaticCall", Kids: []Kid{one("Class", cls), one("Call", m), list("Args", as)}, Parts: parts(cls, t("::"), m, ps), Prec: 100}
		}
	case k == 5 && depth < g.O.MaxDepth && call && g.dollarFirst == 0:
		// (new X(args)) as the base of a chain
		nw := g.newExpr(depth + 1)
		if nw.HasFlag(FKnownDiff) || nw.HasFlag(FPhp7Only) {
			base = g.simpleVar()
			break
		}
		base = g.brackets(nw)
		// at least one link: (new X)->p, (new X)[0], (new X)[0][1]->p
		if g.R.Chance(1, 3) {
			for i, n := 0, g.R.Range(1, 2); i < n; i++ {
				base = g.dim(base, g.exprTop(depth+1), false)
			}
			if g.R.Bool() {
				break
			}
		}
		m := g.identifier(g.ident())
		base = &Node{Kind: "ExprPropertyFetch", Kids: []Kid{one("Var", base), one("Prop", m)}, Parts: parts(base, t("->"), m), Prec: 100}
		if g.R.Chance(1, 3) {
			// (new X)->p[i](args): a call on an element of a property of the new object
			d := g.exprTop(depth + 1)
			fn := &Node{Kind: "ExprArrayDimFetch", Kids: []Kid{one("Var", base), one("Dim", d)}, Parts: parts(base, t("["), d, t("]")), Prec: 100}
			as, ps := g.args(depth)
			base = &Node{Kind: "ExprFunctionCall", Kids: []Kid{one("Function", fn), list("Args", as)}, Parts: parts(fn, ps), Prec: 100}
		}
	default:
		base = g.simpleVar()
	}
	// postfix chain
	for i, n := 0, g.R.Intn(3); i < n && depth < g.O.MaxDepth; i++ {
		isCall := base.Kind == "ExprFunctionCall" || base.Kind == "ExprStaticCall" || base.Kind == "ExprMethodCall"
		switch g.R.Intn(4) {
		case 0: // [dim]
			if isCall && !g.php7() && g.O.Fam == 5 {
				// f()[0] exists since 5.4; fine in both grammars
			}
			if g.R.Chance(1, 8) {
				// $a[] only as an assignment target; skip here
				continue
			}
			d := g.exprTop(depth + 1)
			// $a{0}: PHP 5 has the brace form on variables and properties only, PHP 7 on everything dereferencable
			base = g.dim(base, d, g.php7() || !hasCall(base))
		case 1: // ->prop
			if g.R.Chance(1, 6) {
				// ->$p, ->$$p: the property name taken from a variable; PHP 5 binds dimensions that follow to the
				// name ($o->$p[0] is $o->{$p[0]}), PHP 7 to the fetch: the chain ends here outside PHP 7
				pv := g.indirectVar(2)
				if !g.php7() && !g.O.Common && !g.O.Formatter && g.R.Chance(1, 2) {
					// the PHP 5 reading written out: $o->$p[0] is $o->{$p[0]}, $o->$h[$k](..) calls $o->{$h[$k]}(..)
					var nm *Node = g.simpleVar()
					for k, m := 0, g.R.Range(1, 2); k < m; k++ {
						d := g.exprTop(depth + 1)
						nm = g.dim(nm, d, true)
					}
					if call && g.R.Chance(1, 3) {
						as, ps := g.args(depth)
						base = &Node{Kind: "ExprMethodCall", Kids: []Kid{one("Var", base), one("Method", nm), list("Args", as)}, Parts: parts(base, t("->"), nm, ps), Prec: 100, Flags: FUVS}
					} else {
						base = &Node{Kind: "ExprPropertyFetch", Kids: []Kid{one("Var", base), one("Prop", nm)}, Parts: parts(base, t("->"), nm), Prec: 100, Flags: FUVS}
					}
					i = n
					continue
				}
				base = &Node{Kind: "ExprPropertyFetch", Kids: []Kid{one("Var", base), one("Prop", pv)}, Parts: parts(base, t("->"), pv), Prec: 100}
				if !g.php7() {
					i = n
				}
				continue
			}
			m, _ := g.memberName()
			base = &Node{Kind: "ExprPropertyFetch", Kids: []Kid{one("Var", base), one("Prop", m)}, Parts: parts(base, t("->"), m), Prec: 100}
		case 2: // ->method()
			if !call && i == n-1 {
				continue
			}
			as, ps := g.args(depth)
			if g.R.Chance(1, 4) && (!g.O.Formatter || g.php7()) {
				// ->{expr}(args)
				e := g.braceName(depth)
				base = &Node{Kind: "ExprMethodCall", Kids: []Kid{one("Var", base), one("Method", e), list("Args", as)}, Parts: parts(base, t("->"), t("{"), e, t("}"), ps), Prec: 100}
				continue
			}
			if g.R.Chance(1, 8) {
				// ->$name(args), ->$$name(args)
				e := g.indirectVar(1)
				base = &Node{Kind: "ExprMethodCall", Kids: []Kid{one("Var", base), one("Method", e), list("Args", as)}, Parts: parts(base, t("->"), e, ps), Prec: 100}
				continue
			}
			m, _ := g.memberName()
			base = &Node{Kind: "ExprMethodCall", Kids: []Kid{one("Var", base), one("Method", m), list("Args", as)}, Parts: parts(base, t("->"), m, ps), Prec: 100}
		case 3: // ->{expr}
			if g.O.Formatter && !g.php7() {
				continue
			}
			e := g.braceName(depth)
			base = &Node{Kind: "ExprPropertyFetch", Kids: []Kid{one("Var", base), one("Prop", e)}, Parts: parts(base, t("->"), t("{"), e, t("}")), Prec: 100}
		}
	}
	if !call {
		for base.Kind == "ExprMethodCall" || base.Kind == "ExprFunctionCall" || base.Kind == "ExprStaticCall" {
			// writable context: end in a property or dimension
			m, _ := g.memberName()
			base = &Node{Kind: "ExprPropertyFetch", Kids: []Kid{one("Var", base), one("Prop", m)}, Parts: parts(base, t("->"), m), Prec: 100}
		}
	}
	return base
}

func (g *G) simpleVarPlain() *Node { return g.varNamed("$" + g.ident()) }

// indirectVar: $a, $$a, $$$a ... (levels extra '$' in front of a plain variable): the name of a member or callee
// taken from a variable (variable).
func (g *G) indirectVar(maxLevels int) *Node {
	v := g.simpleVarPlain()
	for i, n := 0, g.R.Intn(maxLevels+1); i < n; i++ {
		v = &Node{Kind: "ExprVariable", Kids: []Kid{one("Name", v)}, Parts: parts(t("$"), v), Prec: 100}
	}
	return v
}

// hasCall: a call result somewhere on the spine of a postfix chain.
func hasCall(n *Node) bool {
	for n != nil {
		switch n.Kind {
		case "ExprFunctionCall", "ExprStaticCall", "ExprMethodCall", "ExprBrackets", "ExprNew":
			return true
		}
		var next *Node
		for _, k := range n.Kids {
			if k.Role == "Var" && !k.List {
				next = k.N
			}
		}
		n = next
	}
	return false
}

// braceName: the expression of a ${..} / ->{..} / ::{..} name. The formatter drops the braces (a recorded finding
// for general expressions); around a plain variable that keeps the meaning, so formatter programs use only that.
func (g *G) braceName(depth int) *Node {
	if g.O.Formatter {
		return g.simpleVar()
	}
	return g.exprTop(depth + 1)
}

// dim wraps base into a dimension fetch, written with brackets or (1 in 6, where the grammar has it) braces.
func (g *G) dim(base, d *Node, curlyOK bool) *Node {
	if curlyOK && !g.O.Formatter && g.R.Chance(1, 6) {
		return &Node{Kind: "ExprArrayDimFetch", Kids: []Kid{one("Var", base), one("Dim", d)}, Parts: parts(base, t("{"), d, t("}")), Prec: 100}
	}
	return &Node{Kind: "ExprArrayDimFetch", Kids: []Kid{one("Var", base), one("Dim", d)}, Parts: parts(base, t("["), d, t("]")), Prec: 100}
}

// scalarDeref: a dimension fetch on a literal or constant — "abc"[0], [1, 2][0], array(1)[0], FOO[0], A::B[0] — with one
// or two dimensions (both grammars), and PHP 7's calls on a parenthesised expression or a literal: ($f)(1), "f"(1), [$o, 'm']().
func (g *G) scalarDeref(depth int) *Node {
	var base *Node
	k := g.R.Intn(7)
	if !g.php7() && k >= 5 {
		k = g.R.Intn(5)
	}
	switch k {
	case 0:
		base = g.plainString()
	case 1:
		base = g.arrayLit(depth + 1)
	case 2:
		base = g.constFetch()
	case 3:
		cls := g.name(true)
		base = &Node{Kind: "ExprClassConstFetch", Kids: []Kid{one("Class", cls), one("Const", g.identifier(g.ident()))}, Prec: 100}
		base.Parts = parts(cls, t("::"), base.Kids[1].N)
	case 4:
		base = g.plainString()
	case 5:
		fn := g.brackets(g.exprTop(depth + 1))
		as, ps := g.args(depth)
		return &Node{Kind: "ExprFunctionCall", Kids: []Kid{one("Function", fn), list("Args", as)}, Parts: parts(fn, ps), Prec: 100, Flags: FPhp7Only}
	default:
		var fn *Node
		if g.R.Bool() {
			fn = g.plainString()
		} else {
			fn = g.arrayLit(depth + 1)
		}
		as, ps := g.args(depth)
		return &Node{Kind: "ExprFunctionCall", Kids: []Kid{one("Function", fn), list("Args", as)}, Parts: parts(fn, ps), Prec: 100, Flags: FPhp7Only}
	}
	for i, n := 0, g.R.Range(1, 2); i < n; i++ {
		base = g.dim(base, g.exprTop(depth+1), false)
	}
	return base
}

func (g *G) arrayItem(depth int, allowSpread bool) *Node {
	v := g.exprTop(depth + 1)
	kk := g.R.Intn(10)
	if g.O.Formatter && kk == 3 {
		kk = 9
	}
	switch k := kk; {
	case k < 3:
		key := g.fit(g.expr(depth+1, false), precAssign, false, false, "ExprArrayItem.Key")
		if g.R.Chance(1, 4) && !g.O.Formatter {
			rv := g.varExpr(depth+1, false)
			return &Node{Kind: "ExprArrayItem", Kids: []Kid{one("Key", key), one("Val", rv)}, Parts: parts(key, t("=>"), t("&"), rv)}
		}
		return &Node{Kind: "ExprArrayItem", Kids: []Kid{one("Key", key), one("Val", v)}, Parts: parts(key, t("=>"), v)}
	case k == 3:
		rv := g.varExpr(depth+1, false)
		return &Node{Kind: "ExprArrayItem", Kids: []Kid{one("Val", rv)}, Parts: parts(t("&"), rv)}
	case k == 4 && allowSpread && g.php7():
		return &Node{Kind: "ExprArrayItem", Kids: []Kid{one("Val", v)}, Parts: parts(t("..."), v), Flags: FPhp7Only}
	}
	return &Node{Kind: "ExprArrayItem", Kids: []Kid{one("Val", v)}, Parts: parts(v)}
}

func (g *G) arrayLit(depth int) *Node {
	var items []*Node
	for i, n := 0, g.R.Intn(4); i < n; i++ {
		items = append(items, g.arrayItem(depth, true))
	}
	if g.O.Formatter && len(items) == 0 {
		items = append(items, g.arrayItem(depth, true))
	}
	body := sepList(items, ",")
	if len(items) > 0 && g.R.Chance(1, 4) && !g.O.Formatter {
		// a trailing comma yields a final empty item in this AST
		items = append(items, &Node{Kind: "ExprArrayItem"})
		body = append(body, t(","))
	}
	if g.R.Bool() {
		return &Node{Kind: "ExprArray", Kids: []Kid{list("Items", items)}, Parts: parts(t("["), body, t("]")), Prec: 100}
	}
	return &Node{Kind: "ExprArray", Kids: []Kid{list("Items", items)}, Parts: parts(g.kw("array"), t("("), body, t(")")), Prec: 100}
}

// listTarget: list(...) or [...] on the left of '=' or in foreach.
func (g *G) listTarget(depth int, allowShort bool) *Node {
	var items []*Node
	n := g.R.Range(1, 3)
	keyed := g.R.Chance(1, 4) && g.php7()
	for i := 0; i < n; i++ {
		var val *Node
		if g.R.Chance(1, 5) && depth < g.O.MaxDepth {
			// nested destructuring always in the list() spelling: a nested [..] stays an ExprArray in this AST (known finding C03-nested-short-list)
			val = g.listTarget(depth+1, false)
		} else {
			val = g.varExpr(depth+1, false)
		}
		switch {
		case keyed:
			key := g.fit(g.expr(depth+1, false), precAssign, false, false, "ExprArrayItem.Key")
			items = append(items, &Node{Kind: "ExprArrayItem", Kids: []Kid{one("Key", key), one("Val", val)}, Parts: parts(key, t("=>"), val)})
		case g.R.Chance(1, 6) && i > 0 && !g.O.Formatter:
			items = append(items, &Node{Kind: "ExprArrayItem"}) // skipped slot
			items = append(items, &Node{Kind: "ExprArrayItem", Kids: []Kid{one("Val", val)}, Parts: parts(val)})
		default:
			items = append(items, &Node{Kind: "ExprArrayItem", Kids: []Kid{one("Val", val)}, Parts: parts(val)})
		}
	}
	body := sepList(items, ",")
	if allowShort && g.php7() && g.R.Bool() {
		return &Node{Kind: "ExprList", Kids: []Kid{list("Items", items)}, Parts: parts(t("["), body, t("]")), Prec: 100, Flags: FPhp7Only}
	}
	return &Node{Kind: "ExprList", Kids: []Kid{list("Items", items)}, Parts: parts(g.kw("list"), t("("), body, t(")")), Prec: 100, Flags: FKnownDiff * b2i(keyed)}
}

func b2i(b bool) int {
	if b {
		return 1
	}
	return 0
}

func (g *G) atom(depth int) *Node {
	switch k := g.R.Intn(22); {
	case k < 5:
		return g.simpleVar()
	case k < 8:
		return g.number()
	case k < 10:
		return g.plainString()
	case k == 10:
		return g.constFetch()
	case k == 11:
		return g.magic()
	case k == 12 && depth < g.O.MaxDepth:
		return g.encapsed(depth)
	case k == 13 && depth < g.O.MaxDepth:
		return g.arrayLit(depth)
	case k == 14 && depth < g.O.MaxDepth:
		return g.closure(depth)
	case k == 15:
		// class constant / ::class
		cls := g.classRef(depth)
		c := g.identifier(g.R.Pick(g.ident(), "class", "CLASS", g.ident()))
		if !g.php7() && cls.Kind == "ExprVariable" {
			c = g.identifier(g.ident())
		}
		if g.php7() && g.R.Chance(1, 6) {
			c = g.identifier(g.reservedWord(true))
		}
		return &Node{Kind: "ExprClassConstFetch", Kids: []Kid{one("Class", cls), one("Const", c)}, Parts: parts(cls, t("::"), c), Prec: 100}
	case k == 16 && depth < g.O.MaxDepth:
		return g.shellExec(depth)
	case k == 17 && depth < g.O.MaxDepth:
		return g.brackets(g.exprTop(depth + 1))
	case k == 18 && depth < g.O.MaxDepth && !g.O.Formatter:
		return g.scalarDeref(depth)
	}
	return g.simpleVar()
}

// ---------------------------------------------------------------------------------------------
// functions, closures, types

func (g *G) typeRef() *Node {
	var ty *Node
	switch k := g.R.Intn(6); {
	case k == 0:
		ty = g.identifier(g.R.Pick("array", "callable", "Array", "CALLABLE"))
	case k == 1 && g.php7():
		ty = g.name(false)
		// scalar type names are ordinary names
	default:
		ty = g.name(true)
	}
	if g.php7() && g.R.Chance(1, 4) {
		return &Node{Kind: "Nullable", Kids: []Kid{one("Expr", ty)}, Parts: parts(t("?"), ty), Flags: FPhp7Only}
	}
	return ty
}

func (g *G) param(depth int, last bool) *Node {
	p := &Node{Kind: "Parameter"}
	if g.R.Chance(1, 3) {
		ty := g.typeRef()
		p.Kids = append(p.Kids, one("Type", ty))
		p.Parts = append(p.Parts, ty)
	}
	if g.R.Chance(1, 5) {
		p.Parts = append(p.Parts, t("&"))
	}
	variadic := last && g.R.Chance(1, 4)
	if variadic {
		p.Parts = append(p.Parts, t("..."))
	}
	v := g.simpleVarPlain()
	p.Kids = append(p.Kids, one("Var", v))
	p.Parts = append(p.Parts, v)
	if (!variadic && g.R.Chance(1, 4)) || (variadic && g.R.Chance(1, 5)) {
		// (a default on a variadic parameter is grammatical; PHP rejects it only at compile time)
		d := g.constExpr(depth + 2)
		p.Kids = append(p.Kids, one("DefaultValue", d))
		p.Parts = append(p.Parts, t("="), d)
	}
	return p
}

// constExpr: a constant expression (static scalar): scalars, constants, arrays, operators.
func (g *G) constExpr(depth int) *Node {
	if depth < g.O.MaxDepth && !g.O.Formatter && g.R.Chance(1, 8) {
		switch g.R.Intn(4) {
		case 0: // ternary, long and short
			c := g.fit(g.constExpr(depth+1), precTernary, false, false, "ExprTernary.Cond")
			f := g.fit(g.constExpr(depth+1), precTernary, true, true, "ExprTernary.IfFalse")
			if g.R.Bool() {
				return &Node{Kind: "ExprTernary", Kids: []Kid{one("Cond", c), one("IfFalse", f)}, Parts: parts(c, t("?"), t(":"), f), Prec: precTernary}
			}
			m := g.fit(g.constExpr(depth+1), precAssign, false, true, "ExprTernary.IfTrue")
			return &Node{Kind: "ExprTernary", Kids: []Kid{one("Cond", c), one("IfTrue", m), one("IfFalse", f)}, Parts: parts(c, t("?"), m, t(":"), f), Prec: precTernary}
		case 1: // ! ~ +
			u := []unop{unops[0], unops[1], unops[3]}[g.R.Intn(3)]
			pr := u.prec
			if g.O.Fam == 5 && u.op == "+" {
				pr = 21 // like the sign '-': the precedence of the binary operator in PHP 5's static-scalar grammar
			}
			e := g.fit(g.constExpr(depth+1), precUnary, false, true, u.kind)
			return &Node{Kind: u.kind, Kids: []Kid{one(u.role, e)}, Parts: parts(t(u.op), e), Prec: pr}
		case 2: // a dimension of a constant, a string or an array literal
			var base *Node
			switch g.R.Intn(4) {
			case 0:
				base = g.plainString()
			case 1:
				base = g.constFetch()
			case 2:
				cls := g.name(true)
				c := g.identifier(g.ident())
				base = &Node{Kind: "ExprClassConstFetch", Kids: []Kid{one("Class", cls), one("Const", c)}, Parts: parts(cls, t("::"), c), Prec: 100}
			default:
				v := g.constExpr(depth + 2)
				it := &Node{Kind: "ExprArrayItem", Kids: []Kid{one("Val", v)}, Parts: parts(v)}
				base = &Node{Kind: "ExprArray", Kids: []Kid{list("Items", []*Node{it})}, Parts: parts(t("["), it, t("]")), Prec: 100}
			}
			d := g.constExpr(depth + 1)
			return &Node{Kind: "ExprArrayDimFetch", Kids: []Kid{one("Var", base), one("Dim", d)}, Parts: parts(base, t("["), d, t("]")), Prec: 100}
		default: // and / or / xor
			b := binops[g.R.Intn(3)]
			l := g.fit(g.constExpr(depth+1), b.prec, false, false, b.kind+".L")
			r := g.fit(g.constExpr(depth+1), b.prec, true, true, b.kind+".R")
			return &Node{Kind: b.kind, Kids: []Kid{one("Left", l), one("Right", r)}, Parts: parts(l, g.kw(b.op), r), Prec: b.prec}
		}
	}
	if depth < g.O.MaxDepth && g.R.Chance(1, 4) {
		b := g.pickBinop()
		if b.prec >= 12 {
			l := g.fit(g.constExpr(depth+1), b.prec, b.assoc != 'l', false, b.kind+".L")
			r := g.fit(g.constExpr(depth+1), b.prec, b.assoc != 'r', true, b.kind+".R")
			return &Node{Kind: b.kind, Kids: []Kid{one("Left", l), one("Right", r)}, Parts: parts(l, t(b.op), r), Prec: b.prec}
		}
	}
	switch g.R.Intn(8) {
	case 0:
		return g.plainString()
	case 1:
		return g.constFetch()
	case 2:
		n := g.number()
		pr := precUnary
		if g.O.Fam == 5 {
			pr = 21 // PHP 5's static-scalar grammar gives a sign the precedence of binary '-'
		}
		return &Node{Kind: "ExprUnaryMinus", Kids: []Kid{one("Expr", n)}, Parts: parts(t("-"), n), Prec: pr}
	case 3:
		var items []*Node
		ni := g.R.Intn(3)
		if g.O.Formatter && ni == 0 {
			ni = 1
		}
		for i, n := 0, ni; i < n; i++ {
			v := g.constExpr(depth + 1)
			if g.R.Chance(1, 3) {
				k := g.fit(g.constExpr(depth+1), precAssign, false, false, "ExprArrayItem.Key")
				items = append(items, &Node{Kind: "ExprArrayItem", Kids: []Kid{one("Key", k), one("Val", v)}, Parts: parts(k, t("=>"), v)})
				continue
			}
			items = append(items, &Node{Kind: "ExprArrayItem", Kids: []Kid{one("Val", v)}, Parts: parts(v)})
		}
		body := sepList(items, ",")
		if len(items) > 0 && g.R.Chance(1, 3) && !g.O.Formatter {
			items = append(items, &Node{Kind: "ExprArrayItem"}) // trailing comma: a final empty item in this AST
			body = append(body, t(","))
		}
		if g.R.Bool() {
			return &Node{Kind: "ExprArray", Kids: []Kid{list("Items", items)}, Parts: parts(g.kw("array"), t("("), body, t(")")), Prec: 100}
		}
		return &Node{Kind: "ExprArray", Kids: []Kid{list("Items", items)}, Parts: parts(t("["), body, t("]")), Prec: 100}
	case 4:
		cls := g.name(true)
		c := g.identifier(g.R.Pick(g.ident(), g.ident(), "class", "CLASS"))
		return &Node{Kind: "ExprClassConstFetch", Kids: []Kid{one("Class", cls), one("Const", c)}, Parts: parts(cls, t("::"), c), Prec: 100}
	case 5:
		return g.magic()
	}
	return g.number()
}

func (g *G) params(depth int) ([]*Node, []interface{}) {
	var ps []*Node
	n := g.R.Intn(4)
	for i := 0; i < n; i++ {
		ps = append(ps, g.param(depth, i == n-1))
	}
	out := parts(t("("), sepList(ps, ","))
	return ps, append(out, t(")"))
}

func (g *G) returnType() (*Node, []interface{}) {
	if !g.php7() || g.R.Chance(2, 3) {
		return nil, nil
	}
	ty := g.typeRef()
	if g.R.Chance(1, 5) {
		id := g.leaf("NamePart", "void")
		ty = &Node{Kind: "Name", Kids: []Kid{list("Parts", []*Node{id})}, Parts: parts(id)}
	}
	return ty, parts(t(":"), ty)
}

func (g *G) closure(depth int) *Node {
	if g.php7() && g.O.Fam == 7 && g.R.Chance(1, 3) {
		// arrow function (7.4 syntax, accepted by the PHP 7 grammar)
		n := &Node{Kind: "ExprArrowFunction", Prec: precAssign - 1, Prefix: true, Flags: FPhp7Only}
		if g.R.Chance(1, 4) {
			n.Parts = append(n.Parts, g.kw("static"))
		}
		n.Parts = append(n.Parts, g.kw("fn"))
		if g.R.Chance(1, 5) {
			n.Parts = append(n.Parts, t("&"))
		}
		ps, pp := g.params(depth)
		n.Kids = append(n.Kids, list("Params", ps))
		n.Parts = append(n.Parts, pp...)
		if rt, rp := g.returnType(); rt != nil {
			n.Kids = append(n.Kids, one("ReturnType", rt))
			n.Parts = append(n.Parts, rp...)
		}
		e := g.fit(g.expr(depth+1, true), precAssign, false, true, "ExprArrowFunction")
		n.Kids = append(n.Kids, one("Expr", e))
		n.Parts = append(n.Parts, t("=>"), e)
		return g.brackets(n)
	}
	n := &Node{Kind: "ExprClosure", Prec: 100}
	if g.R.Chance(1, 4) {
		n.Parts = append(n.Parts, g.kw("static"))
	}
	n.Parts = append(n.Parts, g.kw("function"))
	if g.R.Chance(1, 5) {
		n.Parts = append(n.Parts, t("&"))
	}
	ps, pp := g.params(depth)
	n.Kids = append(n.Kids, list("Params", ps))
	n.Parts = append(n.Parts, pp...)
	if g.R.Chance(1, 3) && !g.O.Formatter {
		var us []*Node
		for i, k := 0, g.R.Range(1, 3); i < k; i++ {
			v := g.simpleVarPlain()
			if g.R.Chance(1, 3) {
				us = append(us, &Node{Kind: "ExprClosureUse", Kids: []Kid{one("Var", v)}, Parts: parts(t("&"), v)})
			} else {
				us = append(us, &Node{Kind: "ExprClosureUse", Kids: []Kid{one("Var", v)}, Parts: parts(v)})
			}
		}
		n.Kids = append(n.Kids, list("Uses", us))
		n.Parts = append(n.Parts, parts(g.kw("use"), t("("), sepList(us, ","), t(")"))...)
	}
	if rt, rp := g.returnType(); rt != nil {
		n.Kids = append(n.Kids, one("ReturnType", rt))
		n.Parts = append(n.Parts, rp...)
		n.Flags |= FPhp7Only
	}
	ss := g.stmts(depth+1, g.R.Intn(3), false)
	n.Kids = append(n.Kids, list("Stmts", ss))
	n.Parts = append(n.Parts, parts(t("{"), nodesToParts(ss), t("}"))...)
	return n
}

func nodesToParts(ns []*Node) []interface{} {
	out := make([]interface{}, len(ns))
	for i, n := range ns {
		out[i] = n
	}
	return out
}

// FirstTokens maps every node reachable through Parts to the index of its first token.
func FirstTokens(root *Node) map[*Node]int {
	m := map[*Node]int{}
	pos := 0
	var rec func(n *Node)
	rec = func(n *Node) {
		m[n] = pos
		for _, p := range n.Parts {
			switch v := p.(type) {
			case Tok:
				pos++
			case *Node:
				if v != nil {
					rec(v)
				}
			}
		}
	}
	rec(root)
	return m
}
